//go:build verif

package main

import (
	"errors"
	"net"

	"github.com/EdgeCast/vflow/mirror"
)

// C16 — mirrored datagrams reach the third-party collector unchanged.
// The real mirrorIPFIX / mirrorSFlow loops are run on two consecutive datagrams (the
// second detects state leaking through the reused header buffers); the raw socket is
// replaced by a recorder.
//
//verif:replace github.com/EdgeCast/vflow/mirror.NewRawConn verifNewRawConn
//verif:replace (*github.com/EdgeCast/vflow/mirror.Conn).Send verifSend

var (
	verifSent    [][]byte
	verifSendMax int
	errVerifStop = errors.New("verif: stop after the last datagram")
)

func verifNewRawConn(raddr net.IP) (mirror.Conn, error) { return mirror.Conn{}, nil }

func verifSend(c *mirror.Conn, b []byte) error {
	verifSent = append(verifSent, append([]byte(nil), b...))
	if len(verifSent) >= verifSendMax {
		return errVerifStop
	}
	return nil
}

// an IPv4 address in 4-octet or IPv4-mapped 16-octet form
func verifIPv4(form int) (ip net.IP, a, b, c, d byte) {
	a, b, c, d = verifNondetU8(), verifNondetU8(), verifNondetU8(), verifNondetU8()
	if form == 0 {
		return net.IP{a, b, c, d}, a, b, c, d
	}
	return net.IP{0, 0, 0, 0, 0, 0, 0, 0, 0, 0, 0xff, 0xff, a, b, c, d}, a, b, c, d
}

type verifDgram struct {
	body       []byte
	n          int
	s0, s1, s2 byte
	s3         byte
}

func verifMirrorCheck(i int, dg verifDgram, d0, d1, d2, d3 byte, sport, dport int) {
	verifAssert(len(verifSent) > i, "every datagram is sent")
	p := verifSent[i]
	n := dg.n
	verifAssert(len(p) == 28+n, "sent length = IP header + UDP header + payload")
	verifAssert(verifAt(p, 0) == 0x45, "IPv4, header length 5 words")
	verifAssert(int(verifAt(p, 2))<<8|int(verifAt(p, 3)) == 28+n, "IP total length")
	verifAssert(verifAt(p, 9) == 17, "IP protocol is UDP")
	verifAssert(verifAll(verifAt(p, 12) == dg.s0, verifAt(p, 13) == dg.s1, verifAt(p, 14) == dg.s2, verifAt(p, 15) == dg.s3), "IP source is the exporter's address")
	verifAssert(verifAll(verifAt(p, 16) == d0, verifAt(p, 17) == d1, verifAt(p, 18) == d2, verifAt(p, 19) == d3), "IP destination is the configured target")
	verifAssert(int(verifAt(p, 22))<<8|int(verifAt(p, 23)) == dport, "UDP destination port is the configured one")
	verifAssert(int(verifAt(p, 24))<<8|int(verifAt(p, 25)) == 8+n, "UDP length")
	j := verifNondetInt()
	verifAssume(verifAll(j >= 0, j < n))
	verifAssert(verifAt(p, 28+j) == verifAt(dg.body, j), "payload is byte-identical")
}

func verifMirrorSetup() (size int, dst net.IP, d0, d1, d2, d3 byte, dport int) {
	size = verifNondetInt()
	verifAssume(verifAll(size >= 0, size <= 65535))
	dst, d0, d1, d2, d3 = verifIPv4(1) // net.ParseIP yields the 16-octet form
	dport = verifNondetInt()
	verifAssume(verifAll(dport >= 0, dport <= 65535))
	verifSent = nil
	verifSendMax = 2
	return
}

func verifMirrorDgram(size int) (dg verifDgram, src net.IP) {
	dg.n = verifNondetInt()
	// a datagram that can exist: at most max-udp-size octets were received, and IPv4 cannot
	// carry more than 65507 octets of UDP payload
	verifAssume(verifAll(dg.n >= 0, dg.n <= size, dg.n <= 65507))
	buf := verifNondetBytesCap(dg.n, size) // b[:n] of a pooled buffer of max-udp-size octets
	dg.body = buf
	src, dg.s0, dg.s1, dg.s2, dg.s3 = verifIPv4(verifCase(2))
	return
}

func VerifMirrorIPFIX() {
	size, dst, d0, d1, d2, d3, dport := verifMirrorSetup()
	opts = &Options{IPFIXUDPSize: size}
	ch := make(chan IPFIXUDPMsg, 2)
	dg1, src1 := verifMirrorDgram(size)
	dg2, src2 := verifMirrorDgram(size)
	// the mirror copy is what the worker queued; keep reference copies for the comparison
	ref1 := verifDgram{append([]byte(nil), dg1.body...), dg1.n, dg1.s0, dg1.s1, dg1.s2, dg1.s3}
	ref2 := verifDgram{append([]byte(nil), dg2.body...), dg2.n, dg2.s0, dg2.s1, dg2.s2, dg2.s3}
	ch <- IPFIXUDPMsg{&net.UDPAddr{IP: src1}, dg1.body}
	ch <- IPFIXUDPMsg{&net.UDPAddr{IP: src2}, dg2.body}
	mirrorIPFIX(dst, dport, ch)
	verifMirrorCheck(0, ref1, d0, d1, d2, d3, 55117, dport)
	verifMirrorCheck(1, ref2, d0, d1, d2, d3, 55117, dport)
	verifReach("end")
}

func VerifMirrorSFlow() {
	size, dst, d0, d1, d2, d3, dport := verifMirrorSetup()
	opts = &Options{SFlowUDPSize: size}
	ch := make(chan SFUDPMsg, 2)
	dg1, src1 := verifMirrorDgram(size)
	dg2, src2 := verifMirrorDgram(size)
	ref1 := verifDgram{append([]byte(nil), dg1.body...), dg1.n, dg1.s0, dg1.s1, dg1.s2, dg1.s3}
	ref2 := verifDgram{append([]byte(nil), dg2.body...), dg2.n, dg2.s0, dg2.s1, dg2.s2, dg2.s3}
	ch <- SFUDPMsg{&net.UDPAddr{IP: src1}, dg1.body}
	ch <- SFUDPMsg{&net.UDPAddr{IP: src2}, dg2.body}
	mirrorSFlow(dst, dport, ch)
	verifMirrorCheck(0, ref1, d0, d1, d2, d3, 55118, dport)
	verifMirrorCheck(1, ref2, d0, d1, d2, d3, 55118, dport)
	verifReach("end")
}
