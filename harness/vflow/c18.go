//go:build verif

package main

// C18: the comma separated filter option is parsed into the list of types, in order
// (strings.Split and strconv.ParseUint are evaluated by the host on these concrete strings).
func VerifFilterOption() {
	var a arrUInt32Flags
	err := a.Set("1,2,1001")
	verifAssert(err == nil, "a list of numbers is accepted")
	verifAssert(len(a) == 3, "one entry per listed type")
	verifAssert(verifAll(a[0] == 1, a[1] == 2, a[2] == 1001), "values and order preserved")
	var b arrUInt32Flags
	verifAssert(b.Set("2") == nil, "a single type is accepted")
	verifAssert(verifAll(len(b) == 1, b[0] == 2), "single value")
	var c arrUInt32Flags
	verifAssert(c.Set("1,x") != nil, "a non-number is rejected")
	verifReach("end")
}
