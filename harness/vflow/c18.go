//go:build verif

package main

import "strconv"

// C18: the comma separated filter option is parsed into the list of types, in order
// (strings.Split and strconv.ParseUint are evaluated by the host on these concrete strings).
func VerifFilterOption() {
	var a arrUInt32Flags
	err := a.Set("1,2,1001")
	verifAssert(err == nil, "a list of numbers is accepted")
	verifAssert(len(a) == 3, "one entry per listed type")
	verifAssert(verifAll(a[0] == 1, a[1] == 2, a[2] == 1001), "values and order preserved")
	var b arrUInt32Flags
	verifAssert(b.Set("2") == nil, "a single type is accepted")
	verifAssert(verifAll(len(b) == 1, b[0] == 2), "single value")
	var c arrUInt32Flags
	verifAssert(c.Set("1,x") != nil, "a non-number is rejected")
	verifReach("end")
}

// C18: the option with SYMBOLIC numbers. The text "x1,x2,...,xk" (k = 1..5) is built with
// strconv.FormatUint from arbitrary 32-bit values and handed to the real parser in one call or
// split over two calls (the option may be repeated on the command line). Every listed type must
// be in the parsed list — wherever it stands in the text and whatever its value — and nothing
// else may be (duplicates may be kept or dropped; the decoder only tests membership).
func VerifFilterOptionAny() {
	k := 1 + verifCase(5)
	xs := make([]uint32, k)
	for i := range xs {
		xs[i] = verifNondetU32()
	}
	cut := verifCase(k) // entries [0,cut) in a first call when cut > 0
	text := func(lo, hi int) string {
		s := ""
		for i := lo; i < hi; i++ {
			if i > lo {
				s += ","
			}
			s += strconv.FormatUint(uint64(xs[i]), 10)
		}
		return s
	}
	var a arrUInt32Flags
	if cut > 0 {
		verifAssert(a.Set(text(0, cut)) == nil, "a list of numbers is accepted")
	}
	verifAssert(a.Set(text(cut, k)) == nil, "a list of numbers is accepted")
	verifAssert(len(a) <= k, "no more entries than listed types")
	for i := 0; i < k; i++ {
		in := false
		for _, v := range a {
			in = verifAny(in, v == xs[i])
		}
		verifAssert(in, "every listed type is in the parsed filter, wherever it stands in the list")
	}
	for _, v := range a {
		in := false
		for i := 0; i < k; i++ {
			in = verifAny(in, v == xs[i])
		}
		verifAssert(in, "the parsed filter contains only listed types")
	}
	verifReach("end")
}
