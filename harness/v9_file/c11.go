//go:build verif

package netflow9

import (
	"errors"
	"net"
	"os"
)

// C11 — any cache file content is safe to load; save/load round trip.
// ioutil.ReadFile / WriteFile and encoding/json are replaced: ReadFile returns an error or
// some octets; Unmarshal returns an error or fills memCacheDisk with ANY value the JSON
// decoder can produce for that type (ShardNo any int; Cache of any length; one arbitrary
// element k being null, an object without "Templates" (nil map), or a shard with <= 1
// entry; the other elements well-formed shards).
//
//verif:replace io/ioutil.ReadFile verifReadFile
//verif:replace os.ReadFile verifReadFile
//verif:replace io/ioutil.WriteFile verifWriteFile
//verif:replace os.WriteFile verifWriteFile
//verif:replace encoding/json.Unmarshal verifUnmarshal
//verif:replace encoding/json.Marshal verifMarshal

var (
	verifFileKind  int             // 0 unreadable, 1 not JSON for this type, 2 arbitrary structure, 3 what Dump wrote
	verifSaved     *memCacheDisk   // value handed to json.Marshal by Dump
	verifSavedName string          // file name handed to WriteFile
	verifLoadedKey uint32          // the one template key present in the loaded structure (kind 2)
	verifLoadedHas bool
	verifK         int
)

var errVerifIO = errors.New("verif: file cannot be read")
var errVerifJSON = errors.New("verif: not a JSON document of this type")

func verifReadFile(name string) ([]byte, error) {
	if verifFileKind == 0 {
		return nil, errVerifIO
	}
	return []byte("file content (interpreted by the Unmarshal stub)"), nil
}

func verifWriteFile(name string, data []byte, perm os.FileMode) error {
	verifSavedName = name
	return nil
}

func verifMarshal(v interface{}) ([]byte, error) {
	d := v.(memCacheDisk)
	verifSaved = &d
	return []byte("json"), nil
}

func verifArbData() Data {
	return Data{Template: TemplateRecord{TemplateID: verifNondetU16(), FieldCount: 1, FieldSpecifiers: []TemplateFieldSpecifier{{ElementID: verifNondetU16(), Length: verifNondetU16()}}}, Timestamp: verifNondetI64()}
}

func verifUnmarshal(data []byte, v interface{}) error {
	mem := v.(*memCacheDisk)
	switch verifFileKind {
	case 1:
		return errVerifJSON
	case 3:
		// what encoding/json carries from the saved value: a deep copy of the exported, untagged
		// fields; everything else comes back as its zero value (contract of encoding/json)
		verifJSONCopy(mem, verifSaved)
		return nil
	}
	mem.ShardNo = verifNondetInt()
	lens := [6]int{0, 1, 31, 32, 33, 40}
	n := lens[verifCase(6)]
	mem.Cache = make(MemCache, n)
	for i := 0; i < n; i++ {
		mem.Cache[i] = &TemplatesShard{Templates: make(map[uint32]Data)}
	}
	k := verifK
	if k < n {
		switch verifCase(4) {
		case 0:
			mem.Cache[k] = nil // JSON null
		case 1:
			mem.Cache[k] = &TemplatesShard{} // JSON {} : nil map
		case 2:
			verifLoadedKey, verifLoadedHas = verifNondetU32(), true
			mem.Cache[k].Templates[verifLoadedKey] = verifArbData()
		}
	}
	return nil
}

// the shard index of interest: split over all 32 in the thorough tier
func verifPickK() {
	verifK = verifSplit(verifParam("shards", 32))
}

func verifKeyInShard(m MemCache, k int) (uint16, net.IP, uint32) {
	id := verifNondetU16()
	addr := net.IP(verifNondetBytes(4))
	b := []byte{byte(id >> 8), byte(id)}
	// FNV-1 of addr||id, computed by the harness (the real getShard would index the slice)
	h := uint32(2166136261)
	for i := 0; i < 4; i++ {
		h = (h * 16777619) ^ uint32(verifAt(addr, i))
	}
	h = (h * 16777619) ^ uint32(b[0])
	h = (h * 16777619) ^ uint32(b[1])
	verifAssume(int(h%32) == k)
	return id, addr, h
}

// 1. whatever the file contains, loading never crashes and the cache is usable afterwards.
func VerifV9CacheLoadAny() {
	verifPickK()
	verifFileKind = verifCase(3)
	verifLoadedHas = false
	m := GetCache("cache.file")
	verifAssert(len(m) == 32, "the loaded cache has 32 shards")
	id, addr, h := verifKeyInShard(m, verifK)
	// use it: a lookup, an insert, a lookup
	_, ok := m.retrieve(id, addr)
	if ok {
		verifAssert(verifAll(verifLoadedHas, h == verifLoadedKey), "only templates that were in the file are found after loading")
	}
	m.insert(id, addr, TemplateRecord{TemplateID: id})
	tr, ok2 := m.retrieve(id, addr)
	verifAssert(verifAll(ok2, tr.TemplateID == id), "the loaded cache accepts and returns new templates")
	verifReach("end")
}

// 3. save then load: every lookup answers as before (JSON modelled as inverse on exported fields).
func VerifV9CacheRoundTrip() {
	verifPickK()
	verifFileKind = 0
	m := GetCache("cache.file") // fresh
	id, addr, _ := verifKeyInShard(m, verifK)
	id2, addr2, _ := verifKeyInShard(m, verifK)
	// the template shapes decoding produces: a plain template, or an options template (no field
	// count; scope fields kept separately)
	t := TemplateRecord{TemplateID: id, FieldCount: 1, FieldSpecifiers: []TemplateFieldSpecifier{{ElementID: verifNondetU16(), Length: verifNondetU16()}}}
	if verifCase(2) == 1 {
		t.FieldCount = 0
		t.ScopeFieldSpecifiers = []TemplateFieldSpecifier{{ElementID: verifNondetU16(), Length: verifNondetU16()}}
	}
	m.insert(id, addr, t)
	before, okb := m.retrieve(id2, addr2)
	err := m.Dump("cache.file")
	verifAssert(err == nil, "Dump succeeds when the file can be written")
	verifAssert(verifSavedName == "cache.file", "Dump writes the file it was asked to write")
	verifFileKind = 3
	m2 := GetCache("cache.file")
	after, oka := m2.retrieve(id2, addr2)
	verifAssert(oka == okb, "a lookup is answered after the restart as before")
	if oka {
		verifAssert(verifAll(after.TemplateID == before.TemplateID, after.FieldCount == before.FieldCount, len(after.FieldSpecifiers) == len(before.FieldSpecifiers)), "same template after the restart")
		verifAssert(after.FieldSpecifiers[0] == before.FieldSpecifiers[0], "same field specifiers after the restart")
		verifAssert(len(after.ScopeFieldSpecifiers) == len(before.ScopeFieldSpecifiers), "same scope fields after the restart")
		if len(after.ScopeFieldSpecifiers) == 1 {
			verifAssert(after.ScopeFieldSpecifiers[0] == before.ScopeFieldSpecifiers[0], "same scope field specifiers after the restart")
		}
	}
	verifReach("end")
}
