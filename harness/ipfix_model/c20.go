//go:build verif

package ipfix

// C20 — built-in and shipped IPFIX information models agree.
// InfoModel is the built-in table as the package's own init builds it (executed by the
// executor from the real source); verifFileModel is scripts/ipfix.elements as loaded by the
// real LoadExtElements (generated natively on every run, see tools/gen_filemodel.sh).

// for EVERY key (listed or not): both tables agree on presence, id and type; an entry is
// keyed by its own element id; its type is one of the 20 recognised ones.
func VerifIPFIXModelAnyKey() {
	k := ElementKey{verifNondetU32(), verifNondetU16()}
	a, oka := InfoModel[k]
	b, okb := verifFileModel[k]
	verifAssert(oka == okb, "an element is defined by both tables or by neither")
	if oka {
		verifAssert(a.FieldID == b.FieldID, "same element id in both tables")
		verifAssert(a.Type == b.Type, "same abstract data type in both tables")
		verifAssert(a.FieldID == k.ElementID, "every entry is keyed by its own element id")
		verifAssert(verifAll(a.Type >= 1, a.Type <= 20), "every entry has a recognised abstract data type")
	}
	verifReach("end")
}

// names (and everything else) entry by entry, both directions; and the type-name table.
func VerifIPFIXModelEntries() {
	verifAssert(len(InfoModel) == len(verifFileModel), "same number of elements")
	n := 0
	for k, v := range InfoModel {
		w, ok := verifFileModel[k]
		verifAssert(ok, "built-in element is in the shipped file")
		verifAssert(v.Name == w.Name, "same element name")
		verifAssert(verifAll(v.FieldID == w.FieldID, v.Type == w.Type), "same id and type")
		n++
	}
	for k := range verifFileModel {
		_, ok := InfoModel[k]
		verifAssert(ok, "shipped element is in the built-in table")
	}
	// the twenty RFC 5102 type names map to twenty distinct declared types; any further
	// name (structured data types) maps to one of them
	verifAssert(len(FieldTypes) >= 20, "at least the twenty RFC 5102 type names")
	base := [20]string{"unsigned8", "unsigned16", "unsigned32", "unsigned64", "signed8", "signed16", "signed32", "signed64", "float32", "float64",
		"boolean", "macAddress", "octetArray", "string", "dateTimeSeconds", "dateTimeMilliseconds", "dateTimeMicroseconds", "dateTimeNanoseconds", "ipv4Address", "ipv6Address"}
	seen := [21]bool{}
	for _, name := range base {
		t, ok := FieldTypes[name]
		verifAssert(ok, "RFC 5102 type name is known")
		verifAssert(verifAll(t >= 1, t <= 20), "type name maps to a declared type")
		verifAssert(!seen[t], "RFC 5102 type names map to distinct types")
		seen[t] = true
	}
	for _, t := range FieldTypes {
		verifAssert(verifAll(t >= 1, t <= 20), "every type name maps to a declared type")
	}
	verifReach("end")
}
