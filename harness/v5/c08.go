//go:build verif

package netflow5

import (
	"bytes"
	"net"
)

// C08 — NetFlow v5 flows are decoded field-for-field.
// Reference: the 24-octet header table and the 48-octet record table (DESIGN.md A.1),
// written with shifts on the raw octets (no encoding/binary, no reader).

func be16(b []byte, o int) uint16 { return uint16(verifAt(b, o))<<8 | uint16(verifAt(b, o+1)) }
func be32(b []byte, o int) uint32 {
	return uint32(verifAt(b, o))<<24 | uint32(verifAt(b, o+1))<<16 | uint32(verifAt(b, o+2))<<8 | uint32(verifAt(b, o+3))
}

func verifV5Input() (buf []byte, n int, ip []byte) {
	maxLen := verifParam("maxlen", 1600)
	n = verifNondetInt()
	verifAssume(verifAll(n >= 0, n <= maxLen))
	buf = verifNondetBytes(n)
	ipl := 4 + 12*verifCase(2) // 4- or 16-octet exporter address
	ip = verifNondetBytes(ipl)
	return
}

// split 0: every packet that is NOT well-formed yields no flows.
// split k (1..30): every well-formed packet announcing k flows yields exactly k flows,
// field for field, with any trailing octets ignored.
func VerifV5Decode() {
	k := verifSplit(31)
	buf, n, ip := verifV5Input()
	cnt16 := be16(buf, 2)
	wellFormed := verifAll(n >= 24, be16(buf, 0) == 5, cnt16 >= 1, cnt16 <= 30, n >= 24+48*int(cnt16))
	if k == 0 {
		verifAssume(!wellFormed)
	} else {
		verifAssume(verifAll(wellFormed, int(cnt16) == k))
	}
	d := NewDecoder(ip, buf)
	msg, err := d.Decode()
	if k == 0 {
		if msg != nil {
			verifAssert(len(msg.Flows) == 0, "ill-formed packet yields no flows")
		}
		verifReach("end")
		return
	}
	verifAssert(err == nil, "well-formed packet decodes without error")
	verifAssert(msg != nil, "well-formed packet yields a message")
	verifAssert(len(msg.Flows) == k, "exactly count flows")
	h := msg.Header
	verifAssert(h.Version == 5, "header Version")
	verifAssert(h.Count == cnt16, "header Count")
	verifAssert(h.SysUpTimeMSecs == be32(buf, 4), "header SysUpTimeMSecs")
	verifAssert(h.UNIXSecs == be32(buf, 8), "header UNIXSecs")
	verifAssert(h.UNIXNSecs == be32(buf, 12), "header UNIXNSecs")
	verifAssert(h.SeqNum == be32(buf, 16), "header SeqNum")
	verifAssert(h.EngType == verifAt(buf, 20), "header EngType")
	verifAssert(h.EngID == verifAt(buf, 21), "header EngID")
	verifAssert(h.SmpInt == be16(buf, 22), "header SmpInt")
	for i := 0; i < len(msg.Flows); i++ {
		f := msg.Flows[i]
		o := 24 + 48*i
		verifAssert(verifAll(f.SrcAddr == be32(buf, o), f.DstAddr == be32(buf, o+4), f.NextHop == be32(buf, o+8)), "flow addresses (SrcAddr, DstAddr, NextHop)")
		verifAssert(verifAll(f.Input == be16(buf, o+12), f.Output == be16(buf, o+14)), "flow Input/Output")
		verifAssert(verifAll(f.PktCount == be32(buf, o+16), f.L3Octets == be32(buf, o+20), f.StartTime == be32(buf, o+24), f.EndTime == be32(buf, o+28)), "flow PktCount/L3Octets/StartTime/EndTime")
		verifAssert(verifAll(f.SrcPort == be16(buf, o+32), f.DstPort == be16(buf, o+34)), "flow ports")
		verifAssert(verifAll(f.Padding1 == verifAt(buf, o+36), f.TCPFlags == verifAt(buf, o+37), f.ProtType == verifAt(buf, o+38), f.Tos == verifAt(buf, o+39)), "flow Padding1/TCPFlags/ProtType/Tos")
		verifAssert(verifAll(f.SrcAsNum == be16(buf, o+40), f.DstAsNum == be16(buf, o+42)), "flow AS numbers")
		verifAssert(verifAll(f.SrcMask == verifAt(buf, o+44), f.DstMask == verifAt(buf, o+45), f.Padding2 == be16(buf, o+46)), "flow masks/Padding2")
	}
	verifReach("end")
}

// C01/C02 for NetFlow v5: Decode followed by JSONMarshal on any datagram of any length
// up to maxlen: no panic site reachable, at most 30 flows, never more flows than octets/48.
func VerifV5Any() {
	buf, n, ip := verifV5Input()
	d := NewDecoder(ip, buf)
	verifAllocBound(4*n + 2048)
	msg, _ := d.Decode()
	if msg != nil {
		verifAssert(len(msg.Flows) <= 30, "at most 30 flows")
		verifAssert(len(msg.Flows)*48 <= n, "no more flows than the datagram has 48-octet records")
		msg.JSONMarshal(new(bytes.Buffer))
	}
	verifReach("end")
}

// C05/C08 for NetFlow v5: the JSON published for a decoded packet of k flows (k = param)
// is valid and carries exporter address, header and every flow field exactly, addresses
// in dotted form.
func VerifV5JSON() {
	k := verifParam("flows", 2)
	buf, n, ip := verifV5Input()
	cnt16 := be16(buf, 2)
	verifAssume(verifAll(n >= 24, be16(buf, 0) == 5, int(cnt16) == k, n >= 24+48*k))
	msg, err := NewDecoder(ip, buf).Decode()
	verifAssume(verifAll(err == nil, msg != nil))
	out, merr := msg.JSONMarshal(new(bytes.Buffer))
	verifAssert(merr == nil, "encoding a decoded packet does not fail")
	verifV5CheckJSON(out, buf, ip, k, cnt16)
	verifReach("end")
}

// verifV5CheckJSON: the published JSON carries exporter address, header and every flow field.
func verifV5CheckJSON(out []byte, buf []byte, ip []byte, k int, cnt16 uint16) {
	h := verifJSONParse(out)
	verifAssert(verifJSONValid(h), "the published payload is one syntactically valid JSON document")
	verifAssert(verifJSONStr(h, "AgentID", net.IP(ip).String()), "exporter address")
	verifAssert(verifAll(verifJSONNum(h, "Header.Version", 5, true), verifJSONNum(h, "Header.Count", uint64(cnt16), true),
		verifJSONNum(h, "Header.SysUpTimeMSecs", uint64(be32(buf, 4)), true), verifJSONNum(h, "Header.UNIXSecs", uint64(be32(buf, 8)), true),
		verifJSONNum(h, "Header.UNIXNSecs", uint64(be32(buf, 12)), true), verifJSONNum(h, "Header.SeqNum", uint64(be32(buf, 16)), true),
		verifJSONNum(h, "Header.EngType", uint64(verifAt(buf, 20)), true), verifJSONNum(h, "Header.EngID", uint64(verifAt(buf, 21)), true),
		verifJSONNum(h, "Header.SmpInt", uint64(be16(buf, 22)), true)), "header fields")
	verifAssert(verifJSONLen(h, "Flows") == k, "one object per flow")
	for i := 0; i < k; i++ {
		o := 24 + 48*i
		p := "Flows[" + string(rune('0'+i)) + "]"
		verifAssert(verifJSONStr(h, p+".SrcAddr", net.IP(buf[o:o+4]).String()), "SrcAddr in dotted form")
		verifAssert(verifJSONStr(h, p+".DstAddr", net.IP(buf[o+4:o+8]).String()), "DstAddr in dotted form")
		verifAssert(verifJSONStr(h, p+".NextHop", net.IP(buf[o+8:o+12]).String()), "NextHop in dotted form")
		verifAssert(verifAll(verifJSONNum(h, p+".Input", uint64(be16(buf, o+12)), true), verifJSONNum(h, p+".Output", uint64(be16(buf, o+14)), true),
			verifJSONNum(h, p+".PktCount", uint64(be32(buf, o+16)), true), verifJSONNum(h, p+".L3Octets", uint64(be32(buf, o+20)), true),
			verifJSONNum(h, p+".StartTime", uint64(be32(buf, o+24)), true), verifJSONNum(h, p+".EndTime", uint64(be32(buf, o+28)), true)), "flow counters and times")
		verifAssert(verifAll(verifJSONNum(h, p+".SrcPort", uint64(be16(buf, o+32)), true), verifJSONNum(h, p+".DstPort", uint64(be16(buf, o+34)), true),
			verifJSONNum(h, p+".Padding1", uint64(verifAt(buf, o+36)), true), verifJSONNum(h, p+".TCPFlags", uint64(verifAt(buf, o+37)), true),
			verifJSONNum(h, p+".ProtType", uint64(verifAt(buf, o+38)), true), verifJSONNum(h, p+".Tos", uint64(verifAt(buf, o+39)), true)), "flow ports/flags/protocol/tos")
		verifAssert(verifAll(verifJSONNum(h, p+".SrcAsNum", uint64(be16(buf, o+40)), true), verifJSONNum(h, p+".DstAsNum", uint64(be16(buf, o+42)), true),
			verifJSONNum(h, p+".SrcMask", uint64(verifAt(buf, o+44)), true), verifJSONNum(h, p+".DstMask", uint64(verifAt(buf, o+45)), true),
			verifJSONNum(h, p+".Padding2", uint64(be16(buf, o+46)), true)), "flow AS numbers/masks")
	}
}

// C05/C08: the same comparison with ONE 32-bit word of the packet free (split: which of the
// 6 header words and 12 record words) and everything else fixed, 4-octet exporter address.
// On the present encoders this adds nothing to VerifV5JSON; it keeps the comparison
// decidable when a field is rendered by a hand-written loop that branches on the value
// (one branch per digit count): with every field free those branches multiply.
func VerifV5JSONWord() {
	w := verifSplit(19)
	buf := []byte{0, 5, 0, 1, 0x01, 0x02, 0x03, 0x04, 0x5f, 0x00, 0x10, 0x20, 0x00, 0x0f, 0x42, 0x40, 0x00, 0x00, 0x30, 0x39, 7, 9, 0x40, 0x64,
		198, 51, 100, 5, 203, 0, 113, 107, 10, 209, 0, 1, 0x00, 0x65, 0x01, 0x00, 0x00, 0x00, 0x27, 0x10, 0x00, 0x98, 0x96, 0x80,
		0x00, 0x01, 0x86, 0xa0, 0x00, 0x01, 0x86, 0xa9, 0xc0, 0x00, 0x00, 0x50, 0, 0x12, 6, 0x68, 0xfd, 0xe8, 0x00, 0x64, 24, 100, 0, 0}
	ip := []byte{192, 0, 2, 1}
	if w < 18 {
		x := verifNondetBytes(4)
		copy(buf[4*w:], x)
	} else {
		copy(ip, verifNondetBytes(4))
	}
	cnt16 := be16(buf, 2)
	verifAssume(verifAll(be16(buf, 0) == 5, cnt16 == 1))
	msg, err := NewDecoder(ip, buf).Decode()
	verifAssume(verifAll(err == nil, msg != nil))
	out, merr := msg.JSONMarshal(new(bytes.Buffer))
	verifAssert(merr == nil, "encoding a decoded packet does not fail")
	verifV5CheckJSON(out, buf, ip, 1, cnt16)
	verifReach("end")
}
