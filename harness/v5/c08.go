//go:build verif

package netflow5

func be16(b []byte, o int) uint16 { return uint16(verifAt(b, o))<<8 | uint16(verifAt(b, o+1)) }
func be32(b []byte, o int) uint32 {
	return uint32(verifAt(b, o))<<24 | uint32(verifAt(b, o+1))<<16 | uint32(verifAt(b, o+2))<<8 | uint32(verifAt(b, o+3))
}

func VerifV5Decode() {
	n := verifNondetInt()
	verifAssume(verifAll(n >= 0, n <= 1600))
	buf := verifNondetBytes(n)
	ip := verifNondetBytes(4)
	d := NewDecoder(ip, buf)
	msg, err := d.Decode()

	cnt16 := be16(buf, 2)
	wellFormed := verifAll(n >= 24, be16(buf, 0) == 5, cnt16 >= 1, cnt16 <= 30, n >= 24+48*int(cnt16))
	if !wellFormed {
		if msg != nil {
			verifAssert(len(msg.Flows) == 0, "ill-formed packet yields no flows")
		}
		verifReach("illformed")
		return
	}
	verifAssert(err == nil, "well-formed packet decodes without error")
	verifAssert(msg != nil, "well-formed packet yields a message")
	verifAssert(len(msg.Flows) == int(cnt16), "exactly count flows")
	h := msg.Header
	verifAssert(verifAll(h.Version == 5, h.Count == cnt16, h.SysUpTimeMSecs == be32(buf, 4), h.UNIXSecs == be32(buf, 8),
		h.UNIXNSecs == be32(buf, 12), h.SeqNum == be32(buf, 16), h.EngType == verifAt(buf, 20), h.EngID == verifAt(buf, 21), h.SmpInt == be16(buf, 22)), "header fields")
	for i := 0; i < len(msg.Flows); i++ {
		f := msg.Flows[i]
		o := 24 + 48*i
		verifAssert(verifAll(f.SrcAddr == be32(buf, o), f.DstAddr == be32(buf, o+4), f.NextHop == be32(buf, o+8),
			f.Input == be16(buf, o+12), f.Output == be16(buf, o+14), f.PktCount == be32(buf, o+16), f.L3Octets == be32(buf, o+20),
			f.StartTime == be32(buf, o+24), f.EndTime == be32(buf, o+28), f.SrcPort == be16(buf, o+32), f.DstPort == be16(buf, o+34),
			f.Padding1 == verifAt(buf, o+36), f.TCPFlags == verifAt(buf, o+37), f.ProtType == verifAt(buf, o+38), f.Tos == verifAt(buf, o+39),
			f.SrcAsNum == be16(buf, o+40), f.DstAsNum == be16(buf, o+42), f.SrcMask == verifAt(buf, o+44), f.DstMask == verifAt(buf, o+45), f.Padding2 == be16(buf, o+46)), "flow record fields")
	}
	verifReach("wellformed")
}
