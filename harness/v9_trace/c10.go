//go:build verif

package netflow9

import (
	"net"
	"os"
)

// C10 — concurrent decoding, dumping and peer lookups keep the template cache sound.
// Each thread's operation is the real code (insert, retrieve, Dump, the peer-facing Get,
// Decode of a template / data message); the executor records its lock and map events and
// the solver decides, over all interleavings, whether two conflicting map accesses of
// different threads can be adjacent (a data race; for a Go map also a fatal runtime error).
// encoding/json.Marshal is replaced by a stand-in that, like the real one, walks every map
// reachable from its argument and reads every template in it WITHOUT taking any lock.
//
//verif:replace encoding/json.Marshal verifMarshalTrace
//verif:replace io/ioutil.WriteFile verifWriteFileTrace
//verif:replace os.WriteFile verifWriteFileTrace

func verifMarshalTrace(v interface{}) ([]byte, error) {
	d := v.(memCacheDisk)
	for _, sh := range d.Cache {
		for _, t := range sh.Templates {
			// like the reflection-based encoder: every field specifier of every template is read
			n := 0
			for _, f := range t.Template.FieldSpecifiers {
				n += int(f.ElementID)
			}
			for _, f := range t.Template.ScopeFieldSpecifiers {
				n += int(f.ElementID)
			}
		}
	}
	return []byte("{}"), nil
}

func verifWriteFileTrace(name string, data []byte, perm os.FileMode) error { return nil }

func verifFNV4(a net.IP, id uint16) uint32 {
	h := uint32(2166136261)
	for i := 0; i < 4; i++ {
		h = (h * 16777619) ^ uint32(verifAt(a, i))
	}
	h = (h * 16777619) ^ uint32(id>>8)
	h = (h * 16777619) ^ uint32(id&0xff)
	return h
}

// three template ids of one exporter; shards: all equal (case 0), first two equal (case 1),
// all different (case 2)
func verifKeys() (a net.IP, k1, k2, k3 uint16) {
	a = net.IP{192, 0, 2, 1}
	k1, k2, k3 = verifNondetU16(), verifNondetU16(), verifNondetU16()
	verifAssume(verifAll(k1 > 255, k2 > 255, k3 > 255))
	s1, s2, s3 := verifFNV4(a, k1)%32, verifFNV4(a, k2)%32, verifFNV4(a, k3)%32
	// concrete shard numbers keep the cache's slice index from forking
	switch verifCase(3) {
	case 0:
		verifAssume(verifAll(s1 == 5, s2 == 5, s3 == 5))
	case 1:
		verifAssume(verifAll(s1 == 5, s2 == 5, s3 == 9))
	default:
		verifAssume(verifAll(s1 == 5, s2 == 9, s3 == 17))
	}
	return
}

func verifTplMsg(id uint16) []byte {
	// header (20) | template flowset id 0: one 8-octet field of type 1
	b := make([]byte, 20+12)
	b[0], b[1] = 0, 9
	b[23] = 12
	b[24], b[25] = byte(id>>8), byte(id)
	b[27] = 1
	b[29] = 1
	b[31] = 8
	return b
}

// one template flowset announcing two templates (one 8-octet field each)
func verifTplMsg2(id1, id2 uint16) []byte {
	b := make([]byte, 20+4+8+8)
	b[0], b[1] = 0, 9
	b[23] = 20
	b[24], b[25] = byte(id1>>8), byte(id1)
	b[27] = 1
	b[29] = 1
	b[31] = 8
	b[32], b[33] = byte(id2>>8), byte(id2)
	b[35] = 1
	b[37] = 2
	b[39] = 8
	return b
}

func verifDataMsg(id uint16) []byte {
	b := make([]byte, 20+4+8)
	b[0], b[1] = 0, 9
	b[20], b[21] = byte(id>>8), byte(id)
	b[23] = 12
	return b
}

func VerifV9CacheTraces() {
	m := GetCache("/nonexistent")
	a, k1, k2, k3 := verifKeys()
	tr := TemplateRecord{TemplateID: k1, FieldCount: 1, FieldSpecifiers: []TemplateFieldSpecifier{{ElementID: 1, Length: 8}}}
	ins1 := func() { m.insert(k1, a, tr) }
	ins2 := func() { m.insert(k2, a, tr) }
	get3 := func() { m.retrieve(k3, a) }
	get1 := func() { m.retrieve(k1, a) }
	dump := func() { m.Dump("cache.file") }
	peer := func() { m.retrieve(k2, a) } // (no peer RPC for v9: a second lookup instead)
	decT := func() { NewDecoder(a, verifTplMsg(k1)).Decode(m) }
	decD := func() { NewDecoder(a, verifDataMsg(k3)).Decode(m) }
	// a set announcing two templates, and data for the first of them: the decoder goes on
	// working on the set after the first template is in the cache
	decT2 := func() { NewDecoder(a, verifTplMsg2(k1, k2)).Decode(m) }
	decD1 := func() { NewDecoder(a, verifDataMsg(k1)).Decode(m) }
	switch verifSplit(12) {
	case 0:
		verifConcurrent(ins1, ins2, get3)
	case 1:
		verifConcurrent(ins1, get1, get3)
	case 2:
		verifConcurrent(dump, ins1, get3)
	case 3:
		verifConcurrent(peer, ins2, dump)
	case 4:
		verifConcurrent(decT, decD, dump)
	case 5:
		verifConcurrent(decT, decT, decD)
	case 6:
		verifConcurrent(decT2, decD1, get1)
	case 7:
		verifConcurrent(decT2, decD1, dump)
	// four threads (thorough tier)
	case 8:
		verifConcurrent(ins1, ins2, dump, get3)
	case 9:
		verifConcurrent(decT, decD, dump, peer)
	case 10:
		verifConcurrent(dump, dump, ins1, get1)
	case 11:
		verifConcurrent(ins1, ins2, get1, get3)
	}
	verifReach("end")
}
