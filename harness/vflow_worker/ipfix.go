//go:build verif

package main

import (
	"bytes"

	"github.com/EdgeCast/vflow/ipfix"
)

// IPFIX datagram of the given kind in a receive buffer of capacity size (b[:n] of a pooled buffer).
// Template 256: sourceIPv4Address (8, 4 octets: decoded value aliases the receive buffer),
// octetDeltaCount (1, 8 octets), interfaceName (82, variable length).
func verifIPFIXDatagram(kind, size int) []byte {
	w := &verifW{b: make([]byte, size)}
	ver := uint16(10)
	if kind == dgGarbage {
		ver = verifNondetU16()
		verifAssume(ver != 10)
	}
	w.u16(ver)
	lenAt := w.o
	w.u16(0)
	w.u32(verifNondetU32())
	w.u32(verifNondetU32())
	w.u32(verifNondetU32())
	// template set
	w.u16(2)
	w.u16(4 + 4 + 12)
	w.u16(256)
	w.u16(3)
	w.u16(8)
	w.u16(4)
	w.u16(1)
	w.u16(8)
	w.u16(82)
	w.u16(65535)
	if kind != dgTemplate {
		sl := 1 + verifCase(2)
		w.u16(256)
		w.u16(uint16(4 + 4 + 8 + 1 + sl))
		w.bytes(verifNondetBytes(4))
		w.bytes(verifNondetBytes(8))
		w.u8(uint8(sl))
		w.bytes(verifNondetBytes(sl))
	}
	if kind == dgPartial {
		w.u16(300)
		w.u16(8)
		w.bytes(verifNondetBytes(4))
	}
	n := w.o
	w.b[lenAt], w.b[lenAt+1] = uint8(n>>8), uint8(n)
	return w.b[:n]
}

// what decoding this datagram on its own produces (reference run on a private copy)
func verifIPFIXReference(body []byte, i int, cache ipfix.MemCache) (out []byte, decoded, publish bool) {
	cp := append([]byte(nil), body...)
	msg, err := ipfix.NewDecoder(verifExporter(i).IP, cp).Decode(cache)
	if msg == nil {
		return nil, false, false
	}
	_ = err
	if len(msg.DataSets) == 0 {
		return nil, true, false
	}
	b, merr := msg.JSONMarshal(new(bytes.Buffer))
	if merr != nil {
		return nil, true, false
	}
	return append([]byte{}, b...), true, true
}

func verifIPFIXWorker(c13 bool) {
	verifAgentInMessage = true
	size := 64
	verifPoolSize = size
	verifPoolBufs = nil
	opts = &Options{IPFIXUDPSize: size}
	// split: outgoing queue full? mirroring on?
	sp := verifSplit(4)
	full := sp&1 == 1
	if full {
		ipfixMQCh = make(chan []byte, 1)
		ipfixMQCh <- []byte("occupied")
	} else {
		ipfixMQCh = make(chan []byte, 3)
	}
	mirrorOn := sp&2 == 2
	ipfixMirrorEnabled = mirrorOn
	ipfixMCh = make(chan IPFIXUDPMsg, 3)
	ipfixUDPCh = make(chan IPFIXUDPMsg, 3)
	mCache = ipfix.GetCache("/nonexistent")
	refCache := ipfix.GetCache("/nonexistent")
	N := verifParam("datagrams", 2)
	bodies, want, orig := make([][]byte, N), make([][]byte, N), make([][]byte, N)
	decoded, publish := make([]bool, N), make([]bool, N)
	for i := 0; i < N; i++ {
		bodies[i] = verifIPFIXDatagram(verifCase(dgKindsTmpl), size)
		orig[i] = append([]byte(nil), bodies[i]...)
		want[i], decoded[i], publish[i] = verifIPFIXReference(bodies[i], i, refCache)
		ipfixUDPCh <- IPFIXUDPMsg{verifExporter(i), bodies[i]}
	}
	close(ipfixUDPCh)
	w := &IPFIX{}
	w.ipfixWorker(make(chan struct{}))

	// what was queued for the producer, in order
	nDec, nPub := uint64(0), 0
	for i := 0; i < N; i++ {
		if decoded[i] {
			nDec++
		}
		if publish[i] && !full {
			nPub++
		}
	}
	if c13 {
		verifAssert(w.stats.DecodedCount == nDec, "C13: the decoded counter counts exactly the datagrams that decode")
		if full {
			verifAssert(len(ipfixMQCh) == 1, "C13: nothing is published when the outgoing queue is full (and the worker does not block)")
		} else {
			verifAssert(len(ipfixMQCh) == nPub, "C13: exactly one message per datagram that yields records, none for the others")
		}
	}
	if !full {
		for i := 0; i < N; i++ {
			if !publish[i] {
				continue
			}
			verifAssert(len(ipfixMQCh) > 0, "C12: a message is queued for every datagram that yields records")
			q := <-ipfixMQCh
			if !c13 {
				verifAssert(verifStrEq(string(q), string(want[i])), "C12: the published message is exactly what decoding this datagram on its own produces")
				// (the reference above runs the same decoder in the same process; what must not
				// depend on process-wide state is checked against the datagram's own source)
				if verifAgentInMessage {
					h := verifJSONParse(q)
					verifAssert(verifJSONStr(h, "AgentID", verifExporter(i).IP.String()), "C12: the published message names the exporter its own datagram came from")
				}
			}
		}
	}
	if mirrorOn && !c13 {
		for i := 0; i < N; i++ {
			verifAssert(len(ipfixMCh) > 0, "C12/C16: every datagram is handed to the mirror when mirroring is on")
			m := <-ipfixMCh
			verifAssert(verifBytesEq(m.body, orig[i]), "C12/C16: the mirrored copy is byte-identical to the datagram")
		}
	}
	verifReach("end")
}

func VerifWorkerOwnershipIPFIX()  { verifIPFIXWorker(false) }
func VerifWorkerAccountingIPFIX() { verifIPFIXWorker(true) }
