//go:build verif

package main

import (
	"io"
	"log"
	"net"
	"sync"
)

func init() {
	// the collector's logger is set up in main(); give the harnesses a silent one
	logger = log.New(io.Discard, "", 0)
}

// C12 / C13 — the real worker functions are called directly. Environment:
//  * the UDP channel is scripted with three datagrams and then closed; the quit channel never fires;
//  * the buffer pool is ADVERSARIAL: Get returns a fresh buffer or any buffer put back earlier,
//    and Put HAVOCS the buffer (from then on somebody else may own and overwrite it);
//  * the decoders, encoders and the template cache are the real ones.
//
//verif:replace (*sync.Pool).Get verifPoolGet
//verif:replace (*sync.Pool).Put verifPoolPut

var (
	verifPoolBufs [][]byte // buffers handed back, in order
	verifPoolSize int
	// the protocol's message carries an "AgentID" (IPFIX, NetFlow v9, NetFlow v5; the sFlow
	// datagram carries the agent address from the wire instead)
	verifAgentInMessage bool
)

func verifPoolGet(p *sync.Pool) interface{} {
	// a fresh buffer, or one of those put back earlier (solver's choice)
	c := verifCase(len(verifPoolBufs) + 1)
	if c == 0 {
		return make([]byte, verifPoolSize)
	}
	b := verifPoolBufs[c-1]
	// a pool never hands the same object out twice
	rest := append([][]byte(nil), verifPoolBufs[:c-1]...)
	verifPoolBufs = append(rest, verifPoolBufs[c:]...)
	return b
}

func verifPoolPut(p *sync.Pool, x interface{}) {
	b := x.([]byte)
	// whoever takes it next may overwrite it at once
	copy(b, verifNondetBytes(len(b)))
	verifPoolBufs = append(verifPoolBufs, b)
}

type verifW struct {
	b []byte
	o int
}

func (w *verifW) u8(v uint8)   { w.b[w.o] = v; w.o++ }
func (w *verifW) u16(v uint16) { w.u8(uint8(v >> 8)); w.u8(uint8(v)) }
func (w *verifW) u32(v uint32) { w.u16(uint16(v >> 16)); w.u16(uint16(v)) }
func (w *verifW) bytes(b []byte) {
	for i := range b {
		w.u8(b[i])
	}
}

func verifExporter(i int) *net.UDPAddr {
	// concrete exporter addresses (two exporters): the cache's hash stays concrete
	if i%2 == 0 {
		return &net.UDPAddr{IP: net.IP{192, 0, 2, 1}, Port: 4739}
	}
	// the second exporter is an IPv6 host whose last four octets equal the first exporter's IPv4
	// address: anything keyed on a part of the address only would confuse the two
	return &net.UDPAddr{IP: net.IP{0x20, 0x01, 0x0d, 0xb8, 0, 0, 0, 0, 0, 0, 0, 0, 192, 0, 2, 1}, Port: 4739}
}

// datagram kinds
const (
	dgData     = 0 // template + one data record: decodes, is published
	dgTemplate = 1 // template only: decodes, nothing to publish
	dgGarbage  = 2 // wrong version: does not decode
	dgKinds    = 3
	// template-based protocols only: template + one data record + a set for a template nobody
	// announced: decoding reports a (non-fatal) error AND yields the record, which is published
	dgPartial   = 3
	dgKindsTmpl = 4
)
