//go:build verif

package main

import (
	"bytes"
	"encoding/json"

	"github.com/EdgeCast/vflow/netflow/v5"
	"github.com/EdgeCast/vflow/netflow/v9"
	"github.com/EdgeCast/vflow/sflow"
)

//verif:replace encoding/json.Marshal verifSFMarshal

// ---------------------------------------------------------------- NetFlow v9

// template 256: IPV4_SRC_ADDR (8, 4 octets, aliases the receive buffer), IN_BYTES (1, 8 octets)
func verifV9Datagram(kind, size int) []byte {
	w := &verifW{b: make([]byte, size)}
	ver := uint16(9)
	if kind == dgGarbage {
		ver = verifNondetU16()
		verifAssume(ver != 9)
	}
	w.u16(ver)
	w.u16(verifNondetU16())
	w.u32(verifNondetU32())
	w.u32(verifNondetU32())
	w.u32(verifNondetU32())
	w.u32(verifNondetU32())
	w.u16(0)
	w.u16(4 + 4 + 8)
	w.u16(256)
	w.u16(2)
	w.u16(8)
	w.u16(4)
	w.u16(1)
	w.u16(8)
	if kind != dgTemplate {
		w.u16(256)
		w.u16(4 + 12)
		w.bytes(verifNondetBytes(4))
		w.bytes(verifNondetBytes(8))
	}
	if kind == dgPartial {
		w.u16(300)
		w.u16(8)
		w.bytes(verifNondetBytes(4))
	}
	return w.b[:w.o]
}

func verifV9Reference(body []byte, i int, cache netflow9.MemCache) (out []byte, decoded, publish bool) {
	cp := append([]byte(nil), body...)
	msg, _ := netflow9.NewDecoder(verifExporter(i).IP, cp).Decode(cache)
	if msg == nil {
		return nil, false, false
	}
	if msg.DataSets == nil {
		return nil, true, false
	}
	b, merr := msg.JSONMarshal(new(bytes.Buffer))
	if merr != nil {
		return nil, true, false
	}
	return append([]byte{}, b...), true, true
}

func verifV9Worker(c13 bool) {
	verifAgentInMessage = true
	size := 64
	verifPoolSize = size
	verifPoolBufs = nil
	opts = &Options{NetflowV9UDPSize: size}
	full := verifSplit(2) == 1
	if full {
		netflowV9MQCh = make(chan []byte, 1)
		netflowV9MQCh <- []byte("occupied")
	} else {
		netflowV9MQCh = make(chan []byte, 3)
	}
	netflowV9UDPCh = make(chan NetflowV9UDPMsg, 3)
	mCacheNF9 = netflow9.GetCache("/nonexistent")
	refCache := netflow9.GetCache("/nonexistent")
	N := verifParam("datagrams", 2)
	bodies, want := make([][]byte, N), make([][]byte, N)
	decoded, publish := make([]bool, N), make([]bool, N)
	for i := 0; i < N; i++ {
		bodies[i] = verifV9Datagram(verifCase(dgKindsTmpl), size)
		want[i], decoded[i], publish[i] = verifV9Reference(bodies[i], i, refCache)
		netflowV9UDPCh <- NetflowV9UDPMsg{verifExporter(i), bodies[i]}
	}
	close(netflowV9UDPCh)
	w := &NetflowV9{}
	w.netflowV9Worker(make(chan struct{}))
	verifWorkerChecks(c13, full, N, decoded, publish, want, w.stats.DecodedCount, netflowV9MQCh)
}

// the assertions common to the v9 / v5 / sFlow pipelines
func verifWorkerChecks(c13, full bool, N int, decoded, publish []bool, want [][]byte, decodedCount uint64, mq chan []byte) {
	nDec, nPub := uint64(0), 0
	for i := 0; i < N; i++ {
		if decoded[i] {
			nDec++
		}
		if publish[i] && !full {
			nPub++
		}
	}
	if c13 {
		verifAssert(decodedCount == nDec, "C13: the decoded counter counts exactly the datagrams that decode")
		if full {
			verifAssert(len(mq) == 1, "C13: nothing is published when the outgoing queue is full (and the worker does not block)")
		} else {
			verifAssert(len(mq) == nPub, "C13: exactly one message per datagram that yields records, none for the others")
		}
	}
	if !full {
		for i := 0; i < N; i++ {
			if !publish[i] {
				continue
			}
			verifAssert(len(mq) > 0, "C12: a message is queued for every datagram that yields records")
			q := <-mq
			if !c13 {
				verifAssert(verifStrEq(string(q), string(want[i])), "C12: the published message is exactly what decoding this datagram on its own produces")
				// (the reference above runs the same decoder in the same process; what must not
				// depend on process-wide state is checked against the datagram's own source)
				if verifAgentInMessage {
					h := verifJSONParse(q)
					verifAssert(verifJSONStr(h, "AgentID", verifExporter(i).IP.String()), "C12: the published message names the exporter its own datagram came from")
				}
			}
		}
	}
	verifReach("end")
}

func VerifWorkerOwnershipV9()  { verifV9Worker(false) }
func VerifWorkerAccountingV9() { verifV9Worker(true) }

// ---------------------------------------------------------------- NetFlow v5

func verifV5Datagram(kind, size int) []byte {
	w := &verifW{b: make([]byte, size)}
	ver := uint16(5)
	if kind == dgGarbage {
		ver = verifNondetU16()
		verifAssume(ver != 5)
	}
	w.u16(ver)
	w.u16(1)
	w.bytes(verifNondetBytes(20))
	w.bytes(verifNondetBytes(48))
	return w.b[:w.o]
}

func verifV5Reference(body []byte, i int) (out []byte, decoded, publish bool) {
	cp := append([]byte(nil), body...)
	msg, _ := netflow5.NewDecoder(verifExporter(i).IP, cp).Decode()
	if msg == nil {
		return nil, false, false
	}
	if msg.Flows == nil {
		return nil, true, false
	}
	b, merr := msg.JSONMarshal(new(bytes.Buffer))
	if merr != nil {
		return nil, true, false
	}
	return append([]byte{}, b...), true, true
}

func verifV5Worker(c13 bool) {
	verifAgentInMessage = true
	size := 80
	verifPoolSize = size
	verifPoolBufs = nil
	opts = &Options{NetflowV5UDPSize: size}
	full := verifSplit(2) == 1
	if full {
		netflowV5MQCh = make(chan []byte, 1)
		netflowV5MQCh <- []byte("occupied")
	} else {
		netflowV5MQCh = make(chan []byte, 3)
	}
	netflowV5UDPCh = make(chan NetflowV5UDPMsg, 3)
	N := verifParam("datagrams", 2)
	bodies, want := make([][]byte, N), make([][]byte, N)
	decoded, publish := make([]bool, N), make([]bool, N)
	for i := 0; i < N; i++ {
		kind := dgData
		if verifCase(2) == 1 {
			kind = dgGarbage
		}
		bodies[i] = verifV5Datagram(kind, size)
		want[i], decoded[i], publish[i] = verifV5Reference(bodies[i], i)
		netflowV5UDPCh <- NetflowV5UDPMsg{verifExporter(i), bodies[i]}
	}
	close(netflowV5UDPCh)
	w := &NetflowV5{}
	w.netflowV5Worker(make(chan struct{}))
	verifWorkerChecks(c13, full, N, decoded, publish, want, w.stats.DecodedCount, netflowV5MQCh)
}

func VerifWorkerOwnershipV5()  { verifV5Worker(false) }
func VerifWorkerAccountingV5() { verifV5Worker(true) }

// ---------------------------------------------------------------- sFlow

// encoding/json cannot be executed (reflection): the stand-in encodes, AT CALL TIME, the
// datagram's sequence number, agent address and the VLAN counters of its first counter sample.
// calls made from a function named verifOrig... are not redirected by the directive above
func verifOrigMarshal(v interface{}) ([]byte, error) { return json.Marshal(v) }

func verifSFMarshal(v interface{}) ([]byte, error) {
	d, ok := v.(*sflow.SFDatagram)
	if !ok {
		// anything else (the string values of the IPFIX / v9 encoders): the library itself
		return verifOrigMarshal(v)
	}
	w := &verifW{b: make([]byte, 64)}
	w.u32(d.SequenceNo)
	w.u32(d.SysUpTime)
	w.bytes(d.IPAddress)
	if len(d.Counters) > 0 {
		if cs, ok := d.Counters[0].(*sflow.CounterSample); ok {
			w.u32(cs.SequenceNo)
			if vc, ok := cs.Records["Vlan"].(*sflow.VlanCounters); ok {
				w.u32(vc.ID)
				w.u32(uint32(vc.Octets >> 32))
				w.u32(uint32(vc.Octets))
				w.u32(vc.Discards)
			}
		}
	}
	return w.b[:w.o], nil
}

const (
	sfData    = 0 // one counter sample with VLAN counters
	sfEmpty   = 1 // well-formed, no samples
	sfGarbage = 2 // wrong version
)

func verifSFDatagram(kind, size int) []byte {
	w := &verifW{b: make([]byte, size)}
	ver := uint32(5)
	if kind == sfGarbage {
		ver = verifNondetU32()
		verifAssume(ver != 5)
	}
	w.u32(ver)
	w.u32(1)
	w.bytes(verifNondetBytes(4))
	w.u32(verifNondetU32())
	w.u32(verifNondetU32())
	w.u32(verifNondetU32())
	if kind == sfEmpty {
		w.u32(0)
		return w.b[:w.o]
	}
	w.u32(1)
	w.u32(sflow.DataCounterSample)
	w.u32(12 + 8 + 28)
	w.u32(verifNondetU32())
	w.u32(verifNondetU32())
	w.u32(1)
	w.u32(sflow.SFVLANCounters)
	w.u32(28)
	w.bytes(verifNondetBytes(28))
	return w.b[:w.o]
}

func verifSFReference(body []byte) (out []byte, decoded, publish bool) {
	cp := append([]byte(nil), body...)
	d := sflow.NewSFDecoder(bytes.NewReader(cp), nil)
	dg, err := d.SFDecode()
	if err != nil || (len(dg.Counters) < 1 && len(dg.Samples) < 1) {
		return nil, false, false
	}
	b, _ := verifSFMarshal(dg)
	return b, true, true
}

func verifSFWorker(c13 bool) {
	verifAgentInMessage = false
	size := 96
	verifPoolSize = size
	verifPoolBufs = nil
	opts = &Options{SFlowUDPSize: size}
	sp := verifSplit(4)
	full := sp&1 == 1
	sFlowMirrorEnabled = sp&2 == 2
	if full {
		sFlowMQCh = make(chan []byte, 1)
		sFlowMQCh <- []byte("occupied")
	} else {
		sFlowMQCh = make(chan []byte, 3)
	}
	sFlowMCh = make(chan SFUDPMsg, 3)
	sFlowUDPCh = make(chan SFUDPMsg, 3)
	N := verifParam("datagrams", 2)
	bodies, want, orig := make([][]byte, N), make([][]byte, N), make([][]byte, N)
	decoded, publish := make([]bool, N), make([]bool, N)
	for i := 0; i < N; i++ {
		bodies[i] = verifSFDatagram(verifCase(3), size)
		orig[i] = append([]byte(nil), bodies[i]...)
		want[i], decoded[i], publish[i] = verifSFReference(bodies[i])
		sFlowUDPCh <- SFUDPMsg{verifExporter(i), bodies[i]}
	}
	close(sFlowUDPCh)
	w := &SFlow{}
	w.sFlowWorker(make(chan struct{}))
	if sFlowMirrorEnabled && !c13 {
		for i := 0; i < N; i++ {
			verifAssert(len(sFlowMCh) > 0, "C12/C16: every datagram is handed to the mirror when mirroring is on")
			m := <-sFlowMCh
			verifAssert(verifBytesEq(m.body, orig[i]), "C12/C16: the mirrored copy is byte-identical to the datagram")
		}
	}
	verifWorkerChecks(c13, full, N, decoded, publish, want, w.stats.DecodedCount, sFlowMQCh)
}

func VerifWorkerOwnershipSFlow()  { verifSFWorker(false) }
func VerifWorkerAccountingSFlow() { verifSFWorker(true) }
