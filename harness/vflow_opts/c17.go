//go:build verif

package main

import (
	"errors"
	"flag"
	"os"
	"strings"
)

// C17 — configuration sources are applied in the documented order.
// The real NewOptions / flagSet / getEnv / loadCfg are executed. The environment, the
// configuration file and the command line are replaced by stand-ins that provide (or not)
// ONE key each; package reflect is modelled on the real Options declaration, package flag
// and yaml.Unmarshal by the harness functions below (their documented contracts).
//
//verif:replace os.Getenv verifGetenv
//verif:replace io/ioutil.ReadFile verifReadCfg
//verif:replace os.ReadFile verifReadCfg
//verif:replace gopkg.in/yaml.v2.Unmarshal verifYAML
//verif:replace flag.StringVar verifStringVar
//verif:replace flag.IntVar verifIntVar
//verif:replace flag.BoolVar verifBoolVar
//verif:replace flag.Var verifVar
//verif:replace flag.Parse verifParse
//verif:replace (github.com/EdgeCast/vflow/vflow.Options).vFlowIsRunning verifNotRunning
//verif:replace (github.com/EdgeCast/vflow/vflow.Options).vFlowPIDWrite verifNoPIDWrite

// start-up steps of GetOptions that touch the process table and the PID file: not the subject
func verifNotRunning(o Options) bool { return false }
func verifNoPIDWrite(o Options)      {}

type verifKey struct {
	yaml, flag string // key in the configuration file (and, upper-cased, in VFLOW_<KEY>) / flag name
	kind       int    // 0 int, 1 string, 2 bool
	ptr        func(o *Options) interface{}
}

// every integer, string and boolean setting that has both a configuration-file key and a flag
// (generated from the Options declaration and flagSet; log-file is left out because a non-empty
// value makes GetOptions open that file, the list-valued sflow-type-filter because it is appended to)
var verifKeys = []verifKey{
	{"verbose", "verbose", 2, func(o *Options) interface{} { return &o.Verbose }},
	{"pid-file", "pid-file", 1, func(o *Options) interface{} { return &o.PIDFile }},
	{"cpu-cap", "cpu-cap", 1, func(o *Options) interface{} { return &o.CPUCap }},
	{"dynamic-workers", "dynamic-workers", 2, func(o *Options) interface{} { return &o.DynWorkers }},
	{"stats-enabled", "stats-enabled", 2, func(o *Options) interface{} { return &o.StatsEnabled }},
	{"stats-format", "stats-format", 1, func(o *Options) interface{} { return &o.StatsFormat }},
	{"stats-http-addr", "stats-http-addr", 1, func(o *Options) interface{} { return &o.StatsHTTPAddr }},
	{"stats-http-port", "stats-http-port", 1, func(o *Options) interface{} { return &o.StatsHTTPPort }},
	{"sflow-enabled", "sflow-enabled", 2, func(o *Options) interface{} { return &o.SFlowEnabled }},
	{"sflow-port", "sflow-port", 0, func(o *Options) interface{} { return &o.SFlowPort }},
	{"sflow-addr", "sflow-addr", 1, func(o *Options) interface{} { return &o.SFlowAddr }},
	{"sflow-udp-size", "sflow-max-udp-size", 0, func(o *Options) interface{} { return &o.SFlowUDPSize }},
	{"sflow-workers", "sflow-workers", 0, func(o *Options) interface{} { return &o.SFlowWorkers }},
	{"sflow-topic", "sflow-topic", 1, func(o *Options) interface{} { return &o.SFlowTopic }},
	{"sflow-mirror-addr", "sflow-mirror-addr", 1, func(o *Options) interface{} { return &o.SFlowMirrorAddr }},
	{"sflow-mirror-port", "sflow-mirror-port", 0, func(o *Options) interface{} { return &o.SFlowMirrorPort }},
	{"sflow-mirror-workers", "sflow-mirror-workers", 0, func(o *Options) interface{} { return &o.SFlowMirrorWorkers }},
	{"ipfix-enabled", "ipfix-enabled", 2, func(o *Options) interface{} { return &o.IPFIXEnabled }},
	{"ipfix-rpc-enabled", "ipfix-rpc-enabled", 2, func(o *Options) interface{} { return &o.IPFIXRPCEnabled }},
	{"ipfix-port", "ipfix-port", 0, func(o *Options) interface{} { return &o.IPFIXPort }},
	{"ipfix-addr", "ipfix-addr", 1, func(o *Options) interface{} { return &o.IPFIXAddr }},
	{"ipfix-udp-size", "ipfix-max-udp-size", 0, func(o *Options) interface{} { return &o.IPFIXUDPSize }},
	{"ipfix-workers", "ipfix-workers", 0, func(o *Options) interface{} { return &o.IPFIXWorkers }},
	{"ipfix-topic", "ipfix-topic", 1, func(o *Options) interface{} { return &o.IPFIXTopic }},
	{"ipfix-mirror-addr", "ipfix-mirror-addr", 1, func(o *Options) interface{} { return &o.IPFIXMirrorAddr }},
	{"ipfix-mirror-port", "ipfix-mirror-port", 0, func(o *Options) interface{} { return &o.IPFIXMirrorPort }},
	{"ipfix-mirror-workers", "ipfix-mirror-workers", 0, func(o *Options) interface{} { return &o.IPFIXMirrorWorkers }},
	{"ipfix-tpl-cache-file", "ipfix-tpl-cache-file", 1, func(o *Options) interface{} { return &o.IPFIXTplCacheFile }},
	{"netflow5-enabled", "netflow5-enabled", 2, func(o *Options) interface{} { return &o.NetflowV5Enabled }},
	{"netflow5-port", "netflow5-port", 0, func(o *Options) interface{} { return &o.NetflowV5Port }},
	{"netflow5-addr", "netflow5-addr", 1, func(o *Options) interface{} { return &o.NetflowV5Addr }},
	{"netflow5-udp-size", "netflow5-max-udp-size", 0, func(o *Options) interface{} { return &o.NetflowV5UDPSize }},
	{"netflow5-workers", "netflow5-workers", 0, func(o *Options) interface{} { return &o.NetflowV5Workers }},
	{"netflow5-topic", "netflow5-topic", 1, func(o *Options) interface{} { return &o.NetflowV5Topic }},
	{"netflow9-enabled", "netflow9-enabled", 2, func(o *Options) interface{} { return &o.NetflowV9Enabled }},
	{"netflow9-port", "netflow9-port", 0, func(o *Options) interface{} { return &o.NetflowV9Port }},
	{"netflow9-addr", "netflow9-addr", 1, func(o *Options) interface{} { return &o.NetflowV9Addr }},
	{"netflow9-udp-size", "netflow9-max-udp-size", 0, func(o *Options) interface{} { return &o.NetflowV9UDPSize }},
	{"netflow9-workers", "netflow9-workers", 0, func(o *Options) interface{} { return &o.NetflowV9Workers }},
	{"netflow9-topic", "netflow9-topic", 1, func(o *Options) interface{} { return &o.NetflowV9Topic }},
	{"netflow9-tpl-cache-file", "netflow9-tpl-cache-file", 1, func(o *Options) interface{} { return &o.NetflowV9TplCacheFile }},
	{"producer-enabled", "producer-enabled", 2, func(o *Options) interface{} { return &o.ProducerEnabled }},
	{"mq-name", "mqueue", 1, func(o *Options) interface{} { return &o.MQName }},
	{"mq-config-file", "mqueue-conf", 1, func(o *Options) interface{} { return &o.MQConfigFile }},
}

var (
	verifK                         verifKey
	verifEnvGiven, verifFileGiven  bool
	verifCmdGiven                  bool
	verifEnvStr                    string
	verifFileInt, verifCmdInt      int
	verifFileBool, verifCmdBool    bool
	verifFlags                     map[string]interface{}
	verifFileStr, verifCmdStr      string   // string values from file / command line (may be empty)
	verifCfgPath                   string   // when set: the only configuration file that exists
	verifCfgRead                   []string // the names ReadFile was asked for
)

func verifGetenv(key string) string {
	want := "VFLOW_" + strings.ReplaceAll(strings.ToUpper(verifK.yaml), "-", "_")
	if verifEnvGiven && key == want {
		return verifEnvStr
	}
	return ""
}

func verifReadCfg(name string) ([]byte, error) {
	verifCfgRead = append(verifCfgRead, name)
	if !verifFileGiven {
		return nil, errors.New("verif: no configuration file")
	}
	if verifCfgPath != "" && name != verifCfgPath {
		return nil, errors.New("verif: no such file")
	}
	return []byte("configuration file"), nil
}

// yaml.Unmarshal(b, opts): every key the file provides overwrites its field, nothing else changes
func verifYAML(in []byte, out interface{}) error {
	o, ok := out.(*Options)
	if !ok {
		return nil
	}
	switch p := verifK.ptr(o).(type) {
	case *int:
		*p = verifFileInt
	case *string:
		*p = verifFileStr
	case *bool:
		*p = verifFileBool
	}
	return nil
}

// package flag: XxxVar stores the default into *p and registers p under name; Parse
// overwrites exactly the flags given on the command line
func verifStringVar(p *string, name string, value string, usage string) { *p = value; verifFlags[name] = p }
func verifIntVar(p *int, name string, value int, usage string)          { *p = value; verifFlags[name] = p }
func verifBoolVar(p *bool, name string, value bool, usage string)       { *p = value; verifFlags[name] = p }
func verifVar(v flag.Value, name string, usage string)                  {}
func verifParse() {
	if !verifCmdGiven {
		return
	}
	switch p := verifFlags[verifK.flag].(type) {
	case *int:
		*p = verifCmdInt
	case *string:
		*p = verifCmdStr
	case *bool:
		*p = verifCmdBool
	default:
		verifAssert(false, "the documented flag is registered")
	}
}

func VerifOptionsPrecedence() {
	verifK = verifKeys[verifSplit(len(verifKeys))]
	src := verifCase(8) // which of environment / file / command line provide the key
	verifEnvGiven, verifFileGiven, verifCmdGiven = src&1 != 0, src&2 != 0, src&4 != 0
	verifFlags = map[string]interface{}{}
	verifFileInt, verifCmdInt = verifNondetInt(), verifNondetInt()
	verifFileBool, verifCmdBool = verifNondetBool(), verifNondetBool()
	envBool := verifCase(2) == 1
	switch verifK.kind {
	case 0:
		verifEnvStr = "4242"
	case 1:
		verifEnvStr = "from-env"
	default:
		verifEnvStr = "false"
		if envBool {
			verifEnvStr = "true"
		}
	}
	// a string value a source provides may also be the empty string (e.g. a cache file switched off)
	verifFileStr, verifCmdStr = "from-file", "from-cmd"
	if verifK.kind == 1 {
		if verifCase(2) == 1 {
			verifFileStr = ""
		}
		if verifCase(2) == 1 {
			verifCmdStr = ""
		}
	}
	def := NewOptions()
	o := GetOptions() // the collector's entry point: NewOptions, flagSet and the start-up steps after them
	switch p := verifK.ptr(o).(type) {
	case *int:
		want := *(verifK.ptr(def).(*int))
		if verifEnvGiven {
			want = 4242
		}
		if verifFileGiven {
			want = verifFileInt
		}
		if verifCmdGiven {
			want = verifCmdInt
		}
		verifAssert(*p == want, "integer setting: command line, else file, else environment, else default")
	case *string:
		want := *(verifK.ptr(def).(*string))
		if verifEnvGiven {
			want = "from-env"
		}
		if verifFileGiven {
			want = verifFileStr
		}
		if verifCmdGiven {
			want = verifCmdStr
		}
		verifAssert(*p == want, "string setting: command line, else file, else environment, else default")
	case *bool:
		want := *(verifK.ptr(def).(*bool))
		if verifEnvGiven {
			want = envBool
		}
		if verifFileGiven {
			want = verifFileBool
		}
		if verifCmdGiven {
			want = verifCmdBool
		}
		verifAssert(*p == want, "boolean setting: command line, else file, else environment, else default")
	}
	verifReach("end")
}

// the configuration file is the one named by -config, wherever the pair stands on the command
// line, and the default location otherwise; its values then take their documented place (here:
// above the environment, for an integer, a string and a boolean key).
func VerifOptionsConfigArg() {
	verifK = verifKeys[[3]int{19, 7, 17}[verifCase(3)]]
	verifEnvGiven, verifFileGiven, verifCmdGiven = true, true, false
	verifFlags = map[string]interface{}{}
	verifFileInt, verifFileBool = verifNondetInt(), verifNondetBool()
	verifEnvStr = [3]string{"4242", "from-env", "true"}[verifK.kind]
	verifFileStr, verifCmdStr = "from-file", "from-cmd"
	verifCfgRead = nil
	want := "/srv/vflow/my.conf"
	switch verifSplit(5) {
	case 0:
		os.Args = []string{"vflow"}
		want = "/etc/vflow/vflow.conf"
	case 1:
		os.Args = []string{"vflow", "-config", want}
	case 2:
		os.Args = []string{"vflow", "-verbose", "-config", want}
	case 3:
		os.Args = []string{"vflow", "-config", want, "-verbose"}
	default:
		os.Args = []string{"vflow", "-ipfix-port", "5000", "-config", want, "-sflow-port", "7000"}
	}
	verifCfgPath = want
	o := NewOptions()
	o.flagSet()
	verifAssert(verifAll(len(verifCfgRead) == 1, verifCfgRead[0] == want), "the configuration file read is the one named by -config (default location otherwise)")
	switch p := verifK.ptr(o).(type) {
	case *int:
		verifAssert(*p == verifFileInt, "integer setting from the named file (above the environment)")
	case *string:
		verifAssert(*p == "from-file", "string setting from the named file (above the environment)")
	case *bool:
		verifAssert(*p == verifFileBool, "boolean setting from the named file (above the environment)")
	}
	verifReach("end")
}
