//go:build verif

package main

// native replay only: the replaced methods are renamed in the repository source
// (…_verifOrig) and these forward to the harness functions
func (opts Options) vFlowIsRunning() bool { return verifNotRunning(opts) }
func (opts Options) vFlowPIDWrite()       { verifNoPIDWrite(opts) }
