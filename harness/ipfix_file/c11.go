//go:build verif

package ipfix

import (
	"errors"
	"net"
	"os"
)

// C11 — any cache file content is safe to load; save/load round trip.
// ioutil.ReadFile / WriteFile and encoding/json are replaced: ReadFile returns an error or
// some octets; Unmarshal returns an error or fills memCacheDisk with ANY value the JSON
// decoder can produce for that type (ShardNo any int; Cache of any length; one arbitrary
// element k being null, an object without "Templates" (nil map), or a shard with <= 1
// entry; the other elements well-formed shards).
//
//verif:replace io/ioutil.ReadFile verifReadFile
//verif:replace os.ReadFile verifReadFile
//verif:replace io/ioutil.WriteFile verifWriteFile
//verif:replace os.WriteFile verifWriteFile
//verif:replace encoding/json.Unmarshal verifUnmarshal
//verif:replace encoding/json.Marshal verifMarshal

var (
	verifFileKind  int             // 0 unreadable, 1 not JSON for this type, 2 arbitrary structure, 3 what Dump wrote
	verifSaved     *memCacheDisk   // value handed to json.Marshal by Dump
	verifSavedName string          // file name handed to WriteFile
	verifLoadedKey uint32          // the one template key present in the loaded structure (kind 2)
	verifLoadedHas bool
	verifK         int
)

var errVerifIO = errors.New("verif: file cannot be read")
var errVerifJSON = errors.New("verif: not a JSON document of this type")

func verifReadFile(name string) ([]byte, error) {
	if verifFileKind == 0 {
		return nil, errVerifIO
	}
	return []byte("file content (interpreted by the Unmarshal stub)"), nil
}

func verifWriteFile(name string, data []byte, perm os.FileMode) error {
	verifSavedName = name
	return nil
}

func verifMarshal(v interface{}) ([]byte, error) {
	d := v.(memCacheDisk)
	verifSaved = &d
	return []byte("json"), nil
}

func verifArbData() Data {
	return Data{Template: TemplateRecord{TemplateID: verifNondetU16(), FieldCount: 1, FieldSpecifiers: []TemplateFieldSpecifier{{ElementID: verifNondetU16(), Length: verifNondetU16()}}}, Timestamp: verifNondetI64()}
}

func verifUnmarshal(data []byte, v interface{}) error {
	mem := v.(*memCacheDisk)
	switch verifFileKind {
	case 1:
		return errVerifJSON
	case 3:
		// what encoding/json carries from the saved value: a deep copy of the exported, untagged
		// fields; everything else comes back as its zero value (contract of encoding/json)
		verifJSONCopy(mem, verifSaved)
		return nil
	}
	mem.ShardNo = verifNondetInt()
	lens := [6]int{0, 1, 31, 32, 33, 40}
	n := lens[verifCase(6)]
	mem.Cache = make(MemCache, n)
	for i := 0; i < n; i++ {
		mem.Cache[i] = &TemplatesShard{Templates: make(map[uint32]Data)}
	}
	k := verifK
	if k < n {
		switch verifCase(4) {
		case 0:
			mem.Cache[k] = nil // JSON null
		case 1:
			mem.Cache[k] = &TemplatesShard{} // JSON {} : nil map
		case 2:
			verifLoadedKey, verifLoadedHas = verifNondetU32(), true
			mem.Cache[k].Templates[verifLoadedKey] = verifArbData()
		}
	}
	return nil
}

// the shard index of interest: split over all 32 in the thorough tier
func verifPickK() {
	verifK = verifSplit(verifParam("shards", 32))
}

func verifKeyInShard(m MemCache, k int) (uint16, net.IP, uint32) {
	id := verifNondetU16()
	addr := net.IP(verifNondetBytes(4))
	b := []byte{byte(id >> 8), byte(id)}
	// FNV-1 of addr||id, computed by the harness (the real getShard would index the slice)
	h := uint32(2166136261)
	for i := 0; i < 4; i++ {
		h = (h * 16777619) ^ uint32(verifAt(addr, i))
	}
	h = (h * 16777619) ^ uint32(b[0])
	h = (h * 16777619) ^ uint32(b[1])
	verifAssume(int(h%32) == k)
	return id, addr, h
}

// 1. whatever the file contains, loading never crashes and the cache is usable afterwards.
func VerifIPFIXCacheLoadAny() {
	verifPickK()
	verifFileKind = verifCase(3)
	verifLoadedHas = false
	m := GetCache("cache.file")
	verifAssert(len(m) == 32, "the loaded cache has 32 shards")
	id, addr, h := verifKeyInShard(m, verifK)
	// use it: a lookup, an insert, a lookup
	_, ok := m.retrieve(id, addr)
	if ok {
		verifAssert(verifAll(verifLoadedHas, h == verifLoadedKey), "only templates that were in the file are found after loading")
	}
	m.insert(id, addr, TemplateRecord{TemplateID: id})
	tr, ok2 := m.retrieve(id, addr)
	verifAssert(verifAll(ok2, tr.TemplateID == id), "the loaded cache accepts and returns new templates")
	verifReach("end")
}

// 3. save then load: every lookup answers as before (JSON modelled as inverse on exported fields).
func VerifIPFIXCacheRoundTrip() {
	verifPickK()
	verifFileKind = 0
	m := GetCache("cache.file") // fresh
	id, addr, _ := verifKeyInShard(m, verifK)
	id2, addr2, _ := verifKeyInShard(m, verifK)
	// the template shapes decoding produces: a plain template (FieldCount = number of fields) or
	// an options template (FieldCount = scope + option fields, scope fields kept separately)
	t := TemplateRecord{TemplateID: id, FieldCount: 1, FieldSpecifiers: []TemplateFieldSpecifier{{ElementID: verifNondetU16(), Length: verifNondetU16(), EnterpriseNo: verifNondetU32()}}}
	if verifCase(2) == 1 {
		t.FieldCount, t.ScopeFieldCount = 2, 1
		t.ScopeFieldSpecifiers = []TemplateFieldSpecifier{{ElementID: verifNondetU16(), Length: verifNondetU16(), EnterpriseNo: verifNondetU32()}}
	}
	m.insert(id, addr, t)
	// a template announced through the real decoder (whatever derived state the decoder keeps
	// with a template is then present), with a variable-length field; and data for it
	// (a concrete exporter and id: which shard they live in plays no role for this part)
	id3, addr3 := uint16(300), net.IP{192, 0, 2, 33}
	verifAssume(!verifAll(id == id3, verifAddrSame(addr, addr3)))
	opt := verifCase(2) == 1
	tmsg, dmsg := verifTplAndData(id3, opt)
	_, terr := NewDecoder(addr3, tmsg).Decode(m)
	verifAssert(terr == nil, "the template announcement decodes")
	recB, errB := NewDecoder(addr3, append([]byte(nil), dmsg...)).Decode(m)
	verifAssert(verifAll(errB == nil, recB != nil, len(recB.DataSets) == 1), "data for the announced template decodes before the restart")
	before, okb := m.retrieve(id2, addr2)
	err := m.Dump("cache.file")
	verifAssert(err == nil, "Dump succeeds when the file can be written")
	verifAssert(verifSavedName == "cache.file", "Dump writes the file it was asked to write")
	verifFileKind = 3
	m2 := GetCache("cache.file")
	after, oka := m2.retrieve(id2, addr2)
	verifAssert(oka == okb, "a lookup is answered after the restart as before")
	if oka {
		verifAssert(verifAll(after.TemplateID == before.TemplateID, after.FieldCount == before.FieldCount, len(after.FieldSpecifiers) == len(before.FieldSpecifiers)), "same template after the restart")
		verifAssert(after.FieldSpecifiers[0] == before.FieldSpecifiers[0], "same field specifiers after the restart")
		verifAssert(verifAll(after.ScopeFieldCount == before.ScopeFieldCount, len(after.ScopeFieldSpecifiers) == len(before.ScopeFieldSpecifiers)), "same scope fields after the restart")
		if len(after.ScopeFieldSpecifiers) == 1 {
			verifAssert(after.ScopeFieldSpecifiers[0] == before.ScopeFieldSpecifiers[0], "same scope field specifiers after the restart")
		}
	}
	recA, errA := NewDecoder(addr3, append([]byte(nil), dmsg...)).Decode(m2)
	verifAssert(verifAll(errA == nil, recA != nil), "after the restart the same data decodes with the saved template")
	verifAssert(len(recA.DataSets) == 1, "after the restart the same data yields the same records")
	fb, fa := recB.DataSets[0], recA.DataSets[0]
	verifAssert(len(fa) == len(fb), "same number of fields after the restart")
	for i := range fb {
		verifAssert(fa[i].ID == fb[i].ID, "same element ids after the restart")
		switch x := fb[i].Value.(type) {
		case uint32:
			y, ok := fa[i].Value.(uint32)
			verifAssert(verifAll(ok, x == y), "same unsigned32 value after the restart")
		case uint64:
			y, ok := fa[i].Value.(uint64)
			verifAssert(verifAll(ok, x == y), "same unsigned64 value after the restart")
		case string:
			y, ok := fa[i].Value.(string)
			verifAssert(ok, "same value type after the restart")
			verifAssert(verifStrEq(x, y), "same text after the restart")
		}
	}
	verifReach("end")
}

func verifAddrSame(a, b net.IP) bool {
	if len(a) != len(b) {
		return false
	}
	eq := true
	for i := range a {
		eq = verifAll(eq, verifAt(a, i) == verifAt(b, i))
	}
	return eq
}

// a template message announcing id with (options template: a 4-octet ingressInterface scope field,)
// octetDeltaCount (8 octets) and interfaceName (variable length), and a data message with one
// record for it (2 octets of text), all values symbolic
func verifTplAndData(id uint16, opt bool) (tmsg, dmsg []byte) {
	put16 := func(b []byte, o int, v uint16) { b[o], b[o+1] = byte(v>>8), byte(v) }
	tl := 4 + 4 + 8
	if opt {
		tl = 4 + 6 + 12
	}
	tmsg = make([]byte, 16+tl)
	put16(tmsg, 0, 10)
	put16(tmsg, 2, uint16(16+tl))
	o := 16
	if opt {
		put16(tmsg, o, 3)
		put16(tmsg, o+2, uint16(tl))
		put16(tmsg, o+4, id)
		put16(tmsg, o+6, 3)
		put16(tmsg, o+8, 1)
		put16(tmsg, o+10, 10)
		put16(tmsg, o+12, 4)
		o += 14
	} else {
		put16(tmsg, o, 2)
		put16(tmsg, o+2, uint16(tl))
		put16(tmsg, o+4, id)
		put16(tmsg, o+6, 2)
		o += 8
	}
	put16(tmsg, o, 1)
	put16(tmsg, o+2, 8)
	put16(tmsg, o+4, 82)
	put16(tmsg, o+6, 65535)
	rl := 8 + 1 + 2
	if opt {
		rl += 4
	}
	dmsg = make([]byte, 16+4+rl)
	put16(dmsg, 0, 10)
	put16(dmsg, 2, uint16(16+4+rl))
	put16(dmsg, 16, id)
	put16(dmsg, 18, uint16(4+rl))
	body := verifNondetBytes(rl)
	copy(dmsg[20:], body)
	dmsg[20+rl-3] = 2 // the length prefix of the text
	return
}
