//go:build verif

package packet

func VerifPacketDecoder() {
	n := verifNondetInt()
	verifAssume(verifAll(n >= 0, n < 1<<31))
	data := verifNondetBytes(n)
	proto := verifNondetU32()
	p := NewPacket()
	p.Decoder(data, proto)
	verifReach("end")
}
