//go:build verif

package packet

import (
	"fmt"
	"net"
)

// C01 layer 1: no panic site reachable in the sampled-header decoder, any length.
// C07: L2/L3/L4 breakdown equals the header layouts (DESIGN.md A.3).

const verifMACFmt = "%0.2x:%0.2x:%0.2x:%0.2x:%0.2x:%0.2x"

func verifMAC(b []byte, o int) string {
	return fmt.Sprintf(verifMACFmt, verifAt(b, o), verifAt(b, o+1), verifAt(b, o+2), verifAt(b, o+3), verifAt(b, o+4), verifAt(b, o+5))
}

func verifInput() (data, orig []byte, n int, proto uint32) {
	n = verifNondetInt()
	verifAssume(verifAll(n >= 0, n < 1<<31))
	data = verifNondetBytes(n)
	orig = append([]byte(nil), data...) // the decoder rewrites its input when a VLAN tag is present
	proto = verifNondetU32()
	return
}

func VerifPacketDecoder() {
	data, _, _, proto := verifInput()
	p := NewPacket()
	p.Decoder(data, proto)
	verifReach("end")
}

// expected L4 starting at offset o of orig with n octets in total
func verifCheckL4(p *Packet, err error, orig []byte, n, o int, proto int) {
	rem := n - o
	switch proto {
	case 1, 58:
		if rem >= 5 {
			verifAssert(err == nil, "ICMP: enough octets: must decode")
			ic, ok := p.L4.(ICMP)
			verifAssert(ok, "ICMP: L4 type")
			verifAssert(verifAll(ic.Type == int(verifAt(orig, o)), ic.Code == int(verifAt(orig, o+1))), "ICMP: Type/Code")
			verifAssert(len(ic.RestHeader) == rem-4, "ICMP: rest of header length")
			j := verifNondetInt()
			verifAssume(verifAll(j >= 0, j < rem-4))
			verifAssert(verifAt(ic.RestHeader, j) == verifAt(orig, o+4+j), "ICMP: rest of header octets")
		} else {
			verifAssert(err != nil, "ICMP: short header must fail")
		}
	case 6:
		if rem >= 20 {
			verifAssert(err == nil, "TCP: enough octets: must decode")
			t, ok := p.L4.(TCPHeader)
			verifAssert(ok, "TCP: L4 type")
			verifAssert(verifAll(t.SrcPort == int(verifAt(orig, o))<<8|int(verifAt(orig, o+1)), t.DstPort == int(verifAt(orig, o+2))<<8|int(verifAt(orig, o+3))), "TCP: ports")
			verifAssert(t.DataOffset == int(verifAt(orig, o+12))>>4, "TCP: DataOffset")
			verifAssert(t.Flags == (int(verifAt(orig, o+12))<<8|int(verifAt(orig, o+13)))&0x1ff, "TCP: Flags")
		} else {
			verifAssert(err != nil, "TCP: short header must fail")
		}
	case 17:
		if rem >= 8 {
			verifAssert(err == nil, "UDP: enough octets: must decode")
			u, ok := p.L4.(UDPHeader)
			verifAssert(ok, "UDP: L4 type")
			verifAssert(verifAll(u.SrcPort == int(verifAt(orig, o))<<8|int(verifAt(orig, o+1)), u.DstPort == int(verifAt(orig, o+2))<<8|int(verifAt(orig, o+3))), "UDP: ports")
		} else {
			verifAssert(err != nil, "UDP: short header must fail")
		}
	default:
		verifAssert(err != nil, "unknown transport protocol must be reported")
	}
}

func verifCheckL3(p *Packet, err error, orig []byte, n, o int, v6 bool) {
	rem := n - o
	if !v6 {
		if rem < 20 {
			verifAssert(err != nil, "IPv4: short header must fail")
			return
		}
		h, ok := p.L3.(IPv4Header)
		verifAssert(ok, "IPv4: L3 type")
		verifAssert(verifAll(h.Version == int(verifAt(orig, o))>>4, h.TOS == int(verifAt(orig, o+1)), h.TotalLen == int(verifAt(orig, o+2))<<8|int(verifAt(orig, o+3)), h.ID == int(verifAt(orig, o+4))<<8|int(verifAt(orig, o+5))), "IPv4: Version/TOS/TotalLen/ID")
		verifAssert(h.Flags == int(verifAt(orig, o+6))>>5, "IPv4: Flags")
		verifAssert(h.FragOff == int(verifAt(orig, o+6)&0x1f)<<8|int(verifAt(orig, o+7)), "IPv4: FragOff")
		verifAssert(verifAll(h.TTL == int(verifAt(orig, o+8)), h.Protocol == int(verifAt(orig, o+9)), h.Checksum == int(verifAt(orig, o+10))<<8|int(verifAt(orig, o+11))), "IPv4: TTL/Protocol/Checksum")
		verifAssert(verifStrEq(h.Src, net.IP(orig[o+12:o+16]).String()), "IPv4: Src")
		verifAssert(verifStrEq(h.Dst, net.IP(orig[o+16:o+20]).String()), "IPv4: Dst")
		verifCheckL4(p, err, orig, n, o+20, int(verifAt(orig, o+9)))
		return
	}
	if rem < 40 {
		verifAssert(err != nil, "IPv6: short header must fail")
		return
	}
	h, ok := p.L3.(IPv6Header)
	verifAssert(ok, "IPv6: L3 type")
	verifAssert(verifAll(h.Version == int(verifAt(orig, o))>>4, h.TrafficClass == int(verifAt(orig, o)&0x0f)<<4|int(verifAt(orig, o+1))>>4), "IPv6: Version/TrafficClass")
	verifAssert(h.FlowLabel == int(verifAt(orig, o+1)&0x0f)<<16|int(verifAt(orig, o+2))<<8|int(verifAt(orig, o+3)), "IPv6: FlowLabel")
	verifAssert(verifAll(h.PayloadLen == int(verifAt(orig, o+4))<<8|int(verifAt(orig, o+5)), h.NextHeader == int(verifAt(orig, o+6)), h.HopLimit == int(verifAt(orig, o+7))), "IPv6: PayloadLen/NextHeader/HopLimit")
	verifAssert(verifStrEq(h.Src, net.IP(orig[o+8:o+24]).String()), "IPv6: Src")
	verifAssert(verifStrEq(h.Dst, net.IP(orig[o+24:o+40]).String()), "IPv6: Dst")
	verifCheckL4(p, err, orig, n, o+40, int(verifAt(orig, o+6)))
}

// VerifPacketOracle: field-for-field breakdown for every length and content.
func VerifPacketOracle() {
	data, orig, n, proto := verifInput()
	pk := NewPacket()
	p, err := pk.Decoder(data, proto)
	switch proto {
	case 1:
		if n < 14 {
			verifAssert(err != nil, "Ethernet: short header must fail")
			break
		}
		et := uint16(verifAt(orig, 12))<<8 | uint16(verifAt(orig, 13))
		o := 14
		if et == 0x8100 {
			if n < 18 {
				verifAssert(err != nil, "802.1Q: short header must fail")
				break
			}
			tci := int(verifAt(orig, 14))<<8 | int(verifAt(orig, 15))
			verifAssert(p.L2.Vlan&0xfff == tci&0xfff, "802.1Q: VLAN id")
			et = uint16(verifAt(orig, 16))<<8 | uint16(verifAt(orig, 17))
			o = 18
		} else {
			verifAssert(p.L2.Vlan == 0, "untagged frame: Vlan is zero")
		}
		verifAssert(p.L2.EtherType == et, "Ethernet: EtherType")
		if et != 0x8100 { // (a second tag is not broken down: outside the claim)
			verifAssert(verifStrEq(p.L2.DstMAC, verifMAC(orig, 0)), "Ethernet: DstMAC")
			verifAssert(verifStrEq(p.L2.SrcMAC, verifMAC(orig, 6)), "Ethernet: SrcMAC")
		}
		switch et {
		case 0x0800:
			verifCheckL3(p, err, orig, n, o, false)
		case 0x86dd:
			verifCheckL3(p, err, orig, n, o, true)
		default:
			verifAssert(err != nil, "unknown ether type must be reported")
		}
	case 11:
		verifCheckL3(p, err, orig, n, 0, false)
	case 12:
		verifCheckL3(p, err, orig, n, 0, true)
	default:
		verifAssert(err != nil, "unknown header protocol must be reported")
	}
	verifReach("end")
}
