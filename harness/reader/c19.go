//go:build verif

package reader

// arbitrary reader reachable from NewReader(orig) by consuming cnt octets
func verifArbReader() (r *Reader, orig []byte, cnt int) {
	n := verifNondetInt()
	verifAssume(n >= 0 && n < 1<<40)
	orig = verifNondetBytes(n)
	cnt = verifNondetInt()
	verifAssume(cnt >= 0 && cnt <= n)
	r = &Reader{data: orig[cnt:], count: cnt}
	return
}

func VerifReaderUint16() {
	r, orig, cnt := verifArbReader()
	l0 := r.Len()
	v, err := r.Uint16()
	if l0 >= 2 {
		verifAssert(err == nil, "must succeed when 2 octets remain")
		verifAssert(v == uint16(orig[cnt])<<8|uint16(orig[cnt+1]), "big-endian value")
		verifAssert(r.Len() == l0-2 && r.ReadCount() == cnt+2, "advance by 2")
	} else {
		verifAssert(err != nil, "must fail when fewer than 2 octets remain")
		verifAssert(r.Len() == l0 && r.ReadCount() == cnt, "failed read leaves position unchanged")
	}
	verifAssert(r.Len()+r.ReadCount() == len(orig), "consumed+remaining=len")
	verifReach("end")
}

func VerifReaderRead() {
	r, orig, cnt := verifArbReader()
	l0 := r.Len()
	n := verifNondetInt()
	verifAssume(n >= 0)
	b, err := r.Read(n)
	if n <= l0 {
		verifAssert(err == nil, "must succeed")
		verifAssert(len(b) == n, "returns n octets")
		j := verifNondetInt()
		verifAssume(j >= 0 && j < n)
		verifAssert(b[j] == orig[cnt+j], "returns exactly the next n octets")
		verifAssert(r.Len() == l0-n && r.ReadCount() == cnt+n, "advance by n")
	} else {
		verifAssert(err != nil, "must fail")
		verifAssert(r.Len() == l0 && r.ReadCount() == cnt, "unchanged")
	}
	verifAssert(r.Len()+r.ReadCount() == len(orig), "consumed+remaining=len")
	verifReach("end")
}

func VerifReaderReadNeg() {
	r, _, _ := verifArbReader()
	n := verifNondetInt()
	r.Read(n)
}
