//go:build verif

package reader

// C19 — the byte reader never reads outside its buffer and accounts exactly.
//
// Every harness starts from an ARBITRARY reader state that NewReader(orig) followed by
// any sequence of operations can reach: data = orig[cnt:], count = cnt, 0 <= cnt <= len(orig).
// One operation is executed on the real code and the contract is asserted; because the
// post-state again satisfies the same representation invariant, sequences of any length
// follow by induction (DESIGN.md, C19).

func verifArbReader() (r *Reader, orig []byte, cnt int) {
	n := verifNondetInt()
	verifAssume(verifAll(n >= 0, n < 1<<40))
	// the buffer may be a window of a larger array (b[:n] of a pooled receive buffer): its
	// capacity is anything from n upwards, and the octets behind the window are arbitrary too
	c := verifNondetInt()
	verifAssume(verifAll(c >= n, c < 1<<40))
	orig = verifNondetBytesCap(n, c)
	cnt = verifNondetInt()
	verifAssume(verifAll(cnt >= 0, cnt <= n))
	// the state NewReader(orig) reaches after consuming cnt octets
	r = NewReader(orig)
	r.data = r.data[cnt:]
	r.count = cnt
	return
}

// invariant: remaining slice is exactly orig[count:], consumed+remaining = len(orig)
func verifInv(r *Reader, orig []byte, wantCount int, msg string) {
	verifAssert(r.ReadCount() == wantCount, msg+": consumed count")
	verifAssert(r.Len() == len(orig)-wantCount, msg+": remaining length")
	verifAssert(r.Len()+r.ReadCount() == len(orig), msg+": consumed+remaining=len")
	// the remaining window is still the tail of the original buffer
	j := verifNondetInt()
	verifAssume(verifAll(j >= 0, j < r.Len()))
	verifAssert(verifAt(r.data, j) == verifAt(orig, wantCount+j), msg+": window is the tail of the buffer")
}

func VerifReaderNew() {
	n := verifNondetInt()
	verifAssume(verifAll(n >= 0, n < 1<<40))
	orig := verifNondetBytes(n)
	r := NewReader(orig)
	verifInv(r, orig, 0, "NewReader")
	verifReach("end")
}

func VerifReaderUint8() {
	r, orig, cnt := verifArbReader()
	l0 := r.Len()
	v, err := r.Uint8()
	if l0 >= 1 {
		verifAssert(err == nil, "Uint8 must succeed when 1 octet remains")
		verifAssert(v == verifAt(orig, cnt), "Uint8 value")
		verifInv(r, orig, cnt+1, "Uint8 ok")
	} else {
		verifAssert(err != nil, "Uint8 must fail on an empty reader")
		verifInv(r, orig, cnt, "Uint8 fail")
	}
	verifReach("end")
}

func VerifReaderUint16() {
	r, orig, cnt := verifArbReader()
	l0 := r.Len()
	v, err := r.Uint16()
	if l0 >= 2 {
		verifAssert(err == nil, "Uint16 must succeed when 2 octets remain")
		verifAssert(v == uint16(verifAt(orig, cnt))<<8|uint16(verifAt(orig, cnt+1)), "Uint16 big-endian value")
		verifInv(r, orig, cnt+2, "Uint16 ok")
	} else {
		verifAssert(err != nil, "Uint16 must fail when fewer than 2 octets remain")
		verifInv(r, orig, cnt, "Uint16 fail")
	}
	verifReach("end")
}

func VerifReaderUint32() {
	r, orig, cnt := verifArbReader()
	l0 := r.Len()
	v, err := r.Uint32()
	if l0 >= 4 {
		verifAssert(err == nil, "Uint32 must succeed when 4 octets remain")
		want := uint32(verifAt(orig, cnt))<<24 | uint32(verifAt(orig, cnt+1))<<16 | uint32(verifAt(orig, cnt+2))<<8 | uint32(verifAt(orig, cnt+3))
		verifAssert(v == want, "Uint32 big-endian value")
		verifInv(r, orig, cnt+4, "Uint32 ok")
	} else {
		verifAssert(err != nil, "Uint32 must fail when fewer than 4 octets remain")
		verifInv(r, orig, cnt, "Uint32 fail")
	}
	verifReach("end")
}

func VerifReaderUint64() {
	r, orig, cnt := verifArbReader()
	l0 := r.Len()
	v, err := r.Uint64()
	if l0 >= 8 {
		verifAssert(err == nil, "Uint64 must succeed when 8 octets remain")
		want := uint64(0)
		for i := 0; i < 8; i++ {
			want = want<<8 | uint64(verifAt(orig, cnt+i))
		}
		verifAssert(v == want, "Uint64 big-endian value")
		verifInv(r, orig, cnt+8, "Uint64 ok")
	} else {
		verifAssert(err != nil, "Uint64 must fail when fewer than 8 octets remain")
		verifInv(r, orig, cnt, "Uint64 fail")
	}
	verifReach("end")
}

func VerifReaderRead() {
	r, orig, cnt := verifArbReader()
	l0 := r.Len()
	n := verifNondetInt()
	verifAssume(n >= 0) // "a read of n octets": n is a count (see DESIGN.md C19, negative n)
	b, err := r.Read(n)
	if n <= l0 {
		verifAssert(err == nil, "Read must succeed when n octets remain")
		verifAssert(len(b) == n, "Read returns n octets")
		j := verifNondetInt()
		verifAssume(verifAll(j >= 0, j < n))
		verifAssert(verifAt(b, j) == verifAt(orig, cnt+j), "Read returns exactly the next n octets")
		verifInv(r, orig, cnt+n, "Read ok")
	} else {
		verifAssert(err != nil, "Read must fail when fewer than n octets remain")
		verifInv(r, orig, cnt, "Read fail")
	}
	verifReach("end")
}

func VerifReaderPeek() {
	r, orig, cnt := verifArbReader()
	l0 := r.Len()
	n := verifNondetInt()
	verifAssume(n >= 0)
	b, err := r.Peek(n)
	if n <= l0 {
		verifAssert(err == nil, "Peek must succeed when n octets remain")
		verifAssert(len(b) == n, "Peek returns n octets")
		j := verifNondetInt()
		verifAssume(verifAll(j >= 0, j < n))
		verifAssert(verifAt(b, j) == verifAt(orig, cnt+j), "Peek returns exactly the next n octets")
	} else {
		verifAssert(err != nil, "Peek must fail when fewer than n octets remain")
	}
	verifInv(r, orig, cnt, "Peek never advances")
	verifReach("end")
}

func VerifReaderPeekUint16() {
	r, orig, cnt := verifArbReader()
	l0 := r.Len()
	v, err := r.PeekUint16()
	if l0 >= 2 {
		verifAssert(err == nil, "PeekUint16 must succeed when 2 octets remain")
		verifAssert(v == uint16(verifAt(orig, cnt))<<8|uint16(verifAt(orig, cnt+1)), "PeekUint16 big-endian value")
	} else {
		verifAssert(err != nil, "PeekUint16 must fail when fewer than 2 octets remain")
	}
	verifInv(r, orig, cnt, "PeekUint16 never advances")
	verifReach("end")
}

// Two operations in sequence from an arbitrary state (a sanity check of the induction
// argument on the real code rather than on paper): read k octets, then a Uint16.
func VerifReaderSeq() {
	r, orig, cnt := verifArbReader()
	k := verifNondetInt()
	verifAssume(verifAll(k >= 0, k <= r.Len()))
	_, err := r.Read(k)
	verifAssert(err == nil, "first read succeeds")
	l1 := r.Len()
	v, err2 := r.Uint16()
	if l1 >= 2 {
		verifAssert(err2 == nil, "second read succeeds")
		verifAssert(v == uint16(verifAt(orig, cnt+k))<<8|uint16(verifAt(orig, cnt+k+1)), "second read sees the octets after the first")
		verifInv(r, orig, cnt+k+2, "Seq ok")
	} else {
		verifAssert(err2 != nil, "second read fails")
		verifInv(r, orig, cnt+k, "Seq fail")
	}
	verifReach("end")
}

// Informational (not part of the property): Read/Peek with a negative n panic.
func VerifReaderReadNeg() {
	r, _, _ := verifArbReader()
	n := verifNondetInt()
	verifAssume(n < 0)
	r.Read(n)
	verifReach("end")
}
