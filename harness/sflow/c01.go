//go:build verif

package sflow

import "bytes"

func verifArbReader() (*bytes.Reader, []byte, int) {
	n := verifNondetInt()
	verifAssume(verifAll(n >= 0, n < 1<<31))
	buf := verifNondetBytes(n)
	pos := verifNondetInt()
	verifAssume(verifAll(pos >= 0, pos <= n))
	r := bytes.NewReader(buf)
	r.Seek(int64(pos), 0)
	return r, buf, pos
}

func VerifSFExtRouter() {
	r, _, _ := verifArbReader()
	l := verifNondetU32()
	decodeExtRouterData(r, l)
	verifReach("end")
}

func be32(b []byte, o int) uint32 {
	return uint32(verifAt(b, o))<<24 | uint32(verifAt(b, o+1))<<16 | uint32(verifAt(b, o+2))<<8 | uint32(verifAt(b, o+3))
}

func VerifSFExtSwitch() {
	r, buf, pos := verifArbReader()
	es, err := decodeExtSwitchData(r)
	if len(buf)-pos >= 16 {
		verifAssert(err == nil, "16 octets available: must decode")
		verifAssert(es.SrcVlan == be32(buf, pos), "SrcVlan")
		verifAssert(es.SrcPriority == be32(buf, pos+4), "SrcPriority")
		verifAssert(es.DstVlan == be32(buf, pos+8), "DstVlan")
		verifAssert(es.DstPriority == be32(buf, pos+12), "DstPriority")
	}
	verifReach("end")
}
