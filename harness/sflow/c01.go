//go:build verif

package sflow

// C01 layer 1 / C07 per-record: every record decoder of sFlow, run on a reader at an
// arbitrary position of an arbitrary buffer (no length bound). No panic site may be
// reachable; when enough octets remain the fields must equal the wire words (sFlow v5
// structures, DESIGN.md A.3); the reader must advance by exactly the record's size.

func VerifSFExtRouter() {
	// any record length: no panic site reachable, allocation bounded
	r, buf, pos := verifArbReader()
	l := verifNondetU32()
	verifAllocBound(4*(len(buf)-pos) + 2048) // C02: memory in proportion to the octets received
	decodeExtRouterData(r, l)
	verifReach("end")
}

// well-formed extended router records: address type word + 4- or 16-octet next hop + two masks
func VerifSFExtRouterFields() {
	r, buf, pos := verifArbReader()
	l := uint32(16 + 12*verifCase(2))
	er, err := decodeExtRouterData(r, l)
	if len(buf)-pos >= int(l) {
		verifAssert(err == nil, "ExtRouter: enough octets: must decode")
		al := int(l) - 12
		verifAssert(len(er.NextHop) == al, "ExtRouter: NextHop length")
		j := verifNondetInt()
		verifAssume(verifAll(j >= 0, j < al))
		verifAssert(verifAt(er.NextHop, j) == verifAt(buf, pos+4+j), "ExtRouter: NextHop octets")
		verifAssert(er.SrcMask == be32(buf, pos+int(l)-8), "ExtRouter: SrcMask")
		verifAssert(er.DstMask == be32(buf, pos+int(l)-4), "ExtRouter: DstMask")
		verifAssert(verifPos(r, len(buf)) == pos+int(l), "ExtRouter: consumes exactly the record length")
	} else {
		verifAssert(err != nil, "ExtRouter: short input must fail")
	}
	verifReach("end")
}

func VerifSFExtSwitch() {
	r, buf, pos := verifArbReader()
	es, err := decodeExtSwitchData(r)
	if len(buf)-pos >= 16 {
		verifAssert(err == nil, "ExtSwitch: 16 octets available: must decode")
		verifAssert(es.SrcVlan == be32(buf, pos), "ExtSwitch: SrcVlan")
		verifAssert(es.SrcPriority == be32(buf, pos+4), "ExtSwitch: SrcPriority")
		verifAssert(es.DstVlan == be32(buf, pos+8), "ExtSwitch: DstVlan")
		verifAssert(es.DstPriority == be32(buf, pos+12), "ExtSwitch: DstPriority")
		verifAssert(verifPos(r, len(buf)) == pos+16, "ExtSwitch: consumes 16 octets")
	} else {
		verifAssert(err != nil, "ExtSwitch: short input must fail")
	}
	verifReach("end")
}

func VerifSFFlowSampleHdr() {
	r, buf, pos := verifArbReader()
	fs := new(FlowSample)
	err := fs.unmarshal(r)
	if len(buf)-pos >= 32 {
		verifAssert(err == nil, "FlowSample header: 32 octets available: must decode")
		verifAssert(fs.SequenceNo == be32(buf, pos), "FlowSample: SequenceNo")
		verifAssert(fs.SourceID == verifAt(buf, pos+4), "FlowSample: SourceID (type octet)")
		verifAssert(fs.SamplingRate == be32(buf, pos+8), "FlowSample: SamplingRate")
		verifAssert(fs.SamplePool == be32(buf, pos+12), "FlowSample: SamplePool")
		verifAssert(fs.Drops == be32(buf, pos+16), "FlowSample: Drops")
		verifAssert(fs.Input == be32(buf, pos+20), "FlowSample: Input")
		verifAssert(fs.Output == be32(buf, pos+24), "FlowSample: Output")
		verifAssert(fs.RecordsNo == be32(buf, pos+28), "FlowSample: RecordsNo")
		verifAssert(verifPos(r, len(buf)) == pos+32, "FlowSample header: consumes 32 octets")
	} else {
		verifAssert(err != nil, "FlowSample header: short input must fail")
	}
	verifReach("end")
}

func VerifSFCounterSampleHdr() {
	r, buf, pos := verifArbReader()
	cs := new(CounterSample)
	err := cs.unmarshal(r)
	if len(buf)-pos >= 12 {
		verifAssert(err == nil, "CounterSample header: 12 octets available: must decode")
		verifAssert(cs.SequenceNo == be32(buf, pos), "CounterSample: SequenceNo")
		verifAssert(cs.SourceIDType == verifAt(buf, pos+4), "CounterSample: SourceIDType")
		verifAssert(cs.SourceIDIdx == be32(buf, pos+4)&0xffffff, "CounterSample: SourceIDIdx")
		verifAssert(cs.RecordsNo == be32(buf, pos+8), "CounterSample: RecordsNo")
		verifAssert(verifPos(r, len(buf)) == pos+12, "CounterSample header: consumes 12 octets")
	} else {
		verifAssert(err != nil, "CounterSample header: short input must fail")
	}
	verifReach("end")
}

// SampledHeader: protocol, frame length, stripped, header length n (<= 1500), n octets,
// XDR padding to a multiple of four.
func VerifSFSampledHeader() {
	r, buf, pos := verifArbReader()
	sh := new(SampledHeader)
	verifAllocBound(4*(len(buf)-pos) + 2048) // C02: memory in proportion to the octets received
	err := sh.unmarshal(r)
	avail := len(buf) - pos
	if avail >= 16 {
		hl := be32(buf, pos+12)
		pad := (4 - hl%4) % 4
		if hl <= 1500 {
			if avail >= 16+int(hl+pad) {
				verifAssert(err == nil, "SampledHeader: enough octets: must decode")
				verifAssert(sh.Protocol == be32(buf, pos), "SampledHeader: Protocol")
				verifAssert(sh.FrameLength == be32(buf, pos+4), "SampledHeader: FrameLength")
				verifAssert(sh.Stripped == be32(buf, pos+8), "SampledHeader: Stripped")
				verifAssert(sh.HeaderLength == hl, "SampledHeader: HeaderLength")
				verifAssert(len(sh.Header) == int(hl), "SampledHeader: len(Header)")
				j := verifNondetInt()
				verifAssume(verifAll(j >= 0, j < int(hl)))
				verifAssert(verifAt(sh.Header, j) == verifAt(buf, pos+16+j), "SampledHeader: header octets")
				verifAssert(verifPos(r, len(buf)) == pos+16+int(hl+pad), "SampledHeader: consumes header plus XDR padding")
			}
		} else {
			verifAssert(err != nil, "SampledHeader: length above 1500 must be rejected")
		}
	} else {
		verifAssert(err != nil, "SampledHeader: short input must fail")
	}
	verifReach("end")
}
