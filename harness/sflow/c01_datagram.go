//go:build verif

package sflow

import "bytes"

// C01/C02 layer 2: SFDecode on a fully symbolic datagram. No panic site reachable, every
// loop iteration moves the reader, no allocation beyond the bound, no more samples than octets.
// Split s: s == 0 covers lengths 0..lo, s >= 1 the lengths lo+(s-1)*step+1 .. lo+s*step.
func VerifSFDatagramAny() {
	lo := verifParam("lo", 36)
	step := verifParam("step", 8)
	nsplit := verifParam("nsplit", 9)
	s := verifSplit(nsplit)
	n := verifNondetInt()
	if s == 0 {
		verifAssume(verifAll(n >= 0, n <= lo))
	} else {
		verifAssume(verifAll(n > lo+(s-1)*step, n <= lo+s*step))
	}
	buf := verifNondetBytes(n)
	r := bytes.NewReader(buf)
	var filter []uint32
	if verifParam("filter", 0) == 1 {
		filter = []uint32{verifNondetU32()}
	}
	d := NewSFDecoder(r, filter)
	verifProgress(func() int { p, _ := r.Seek(0, 1); return int(p) }, "SFDecoder).SFDecode", "sflow.decodeFlowSample", "sflow.decodeFlowCounter")
	// unwinding ASSUMPTIONS (not assertions): at most S samples and R records per sample are
	// followed; longer datagrams are outside the claim of this harness (the per-record units
	// have no such bound)
	verifLoopBound("SFDecoder).SFDecode", verifParam("S", 2))
	verifLoopBound("sflow.decodeFlowSample", verifParam("R", 1))
	verifLoopBound("sflow.decodeFlowCounter", verifParam("R", 1))
	verifAllocBound(4*n + 2048)
	dg, _ := d.SFDecode()
	if dg != nil {
		verifAssert(len(dg.Samples)+len(dg.Counters) <= n, "no more samples than the datagram has octets")
	}
	verifReach("end")
}

// a reader that counts the octets it delivers (binary.Read, io.ReadFull and Read all go
// through Read; Seek does not deliver anything)
type verifCountReader struct {
	R *bytes.Reader
	N int
}

func (c *verifCountReader) Read(p []byte) (int, error) {
	n, err := c.R.Read(p)
	c.N += n
	return n, err
}
func (c *verifCountReader) Seek(o int64, w int) (int64, error) { return c.R.Seek(o, w) }

// C02: decoding reads no octet of the datagram twice: the octets delivered to the decoder in
// total never exceed the datagram's length (the decoders only move forwards; skipping is by
// seeking). Up to S samples with up to R records each are followed.
func VerifSFReadOnce() {
	lo := verifParam("rlo", 28)
	step := verifParam("rstep", 8)
	s := verifSplit(verifParam("rsplit", 6))
	n := verifNondetInt()
	verifAssume(verifAll(n > lo+s*step, n <= lo+(s+1)*step))
	buf := verifNondetBytes(n)
	c := &verifCountReader{R: bytes.NewReader(buf)}
	var filter []uint32
	if verifCase(2) == 1 {
		filter = []uint32{verifNondetU32()}
	}
	d := NewSFDecoder(c, filter)
	verifLoopBound("SFDecoder).SFDecode", verifParam("RS", 3))
	verifLoopBound("sflow.decodeFlowSample", verifParam("RR", 2))
	verifLoopBound("sflow.decodeFlowCounter", verifParam("RR", 2))
	d.SFDecode()
	verifAssert(c.N <= n, "the octets read in total do not exceed the datagram's length (nothing is decoded twice)")
	verifReach("end")
}
