//go:build verif

package sflow

import "bytes"

// C01/C02 layer 2: SFDecode on a fully symbolic datagram. No panic site reachable, every
// loop iteration moves the reader, no allocation beyond the bound, no more samples than octets.
// Split s: s == 0 covers lengths 0..lo, s >= 1 the lengths lo+(s-1)*step+1 .. lo+s*step.
func VerifSFDatagramAny() {
	lo := verifParam("lo", 36)
	step := verifParam("step", 8)
	nsplit := verifParam("nsplit", 9)
	s := verifSplit(nsplit)
	n := verifNondetInt()
	if s == 0 {
		verifAssume(verifAll(n >= 0, n <= lo))
	} else {
		verifAssume(verifAll(n > lo+(s-1)*step, n <= lo+s*step))
	}
	buf := verifNondetBytes(n)
	r := bytes.NewReader(buf)
	var filter []uint32
	if verifParam("filter", 0) == 1 {
		filter = []uint32{verifNondetU32()}
	}
	d := NewSFDecoder(r, filter)
	verifProgress(func() int { p, _ := r.Seek(0, 1); return int(p) }, "SFDecoder).SFDecode", "sflow.decodeFlowSample", "sflow.decodeFlowCounter")
	// unwinding ASSUMPTIONS (not assertions): at most S samples and R records per sample are
	// followed; longer datagrams are outside the claim of this harness (the per-record units
	// have no such bound)
	verifLoopBound("SFDecoder).SFDecode", verifParam("S", 2))
	verifLoopBound("sflow.decodeFlowSample", verifParam("R", 1))
	verifLoopBound("sflow.decodeFlowCounter", verifParam("R", 1))
	verifAllocBound(4*n + 2048)
	dg, _ := d.SFDecode()
	if dg != nil {
		verifAssert(len(dg.Samples)+len(dg.Counters) <= n, "no more samples than the datagram has octets")
	}
	verifReach("end")
}
