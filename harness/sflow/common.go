//go:build verif

package sflow

import "bytes"

// A *bytes.Reader positioned anywhere inside (or at the end of) an arbitrary buffer.
func verifArbReader() (*bytes.Reader, []byte, int) {
	n := verifNondetInt()
	verifAssume(verifAll(n >= 0, n < 1<<31))
	buf := verifNondetBytes(n)
	pos := verifNondetInt()
	verifAssume(verifAll(pos >= 0, pos <= n))
	r := bytes.NewReader(buf)
	r.Seek(int64(pos), 0)
	return r, buf, pos
}

func verifPos(r *bytes.Reader, n int) int { return n - r.Len() }

func be32(b []byte, o int) uint32 {
	return uint32(verifAt(b, o))<<24 | uint32(verifAt(b, o+1))<<16 | uint32(verifAt(b, o+2))<<8 | uint32(verifAt(b, o+3))
}
func be64(b []byte, o int) uint64 { return uint64(be32(b, o))<<32 | uint64(be32(b, o+4)) }
