//go:build verif

package sflow

import "bytes"

// C07 / C18 at datagram level: structured sFlow v5 datagrams (every field value symbolic)
// built from a sequence of samples of five kinds; the real SFDecode must return header,
// flow samples and counter samples in wire order with all fields equal to the wire
// values, and skip unknown / vendor-specific samples and unknown records by their
// declared length.

type verifW struct {
	b []byte
	o int
}

func (w *verifW) u8(v uint8)   { w.b[w.o] = v; w.o++ }
func (w *verifW) u32(v uint32) { w.u8(uint8(v >> 24)); w.u8(uint8(v >> 16)); w.u8(uint8(v >> 8)); w.u8(uint8(v)) }
func (w *verifW) u64(v uint64) { w.u32(uint32(v >> 32)); w.u32(uint32(v)) }

const (
	kFlowSwitch  = 0 // flow sample: one extended switch record
	kFlowUnkRec  = 1 // flow sample: one unknown record (skipped) then an extended switch record
	kCounterVlan = 2 // counter sample: one VLAN counters record
	kUnknown     = 3 // sample of an unknown format: skipped by its length
	kVendor      = 4 // sample with a non-zero enterprise number: skipped by its length
	kCounterUnk  = 5 // counter sample: one unknown or vendor-specific record (skipped) then VLAN counters
	kFlowRouter  = 6 // flow sample: one extended router record (IPv4 next hop): its address is a byte slice
	nKinds       = 7
)

type verifSample struct {
	kind           int
	format         uint32 // kUnknown / kVendor: the type word
	body           []byte // kUnknown / kVendor and the unknown record
	seq            uint32
	srcType        uint8
	srcIdx         [3]uint8
	rate, pool     uint32
	drops, in, out uint32
	sw             [4]uint32
	vlan           VlanCounters
	urFormat       uint32
}

// the octets of a part the decoder has to skip by its declared length: 0, 4, 8 (param ubodies:
// how many of these) or, with bigbody, 1504 octets — longer than any fixed-size structure of the
// protocol and than the default maximum datagram size of the collector
func verifSkipBody() []byte {
	n := verifParam("ubodies", 3)
	c := verifCase(n + verifParam("bigbody", 1))
	if c == n {
		return verifNondetBytes(1504)
	}
	return verifNondetBytes(4 * c)
}

func verifArbSample(kind int) verifSample {
	s := verifSample{kind: kind, seq: verifNondetU32(), srcType: verifNondetU8()}
	s.srcIdx = [3]uint8{verifNondetU8(), verifNondetU8(), verifNondetU8()}
	switch kind {
	case kFlowSwitch, kFlowUnkRec, kFlowRouter:
		s.rate, s.pool, s.drops, s.in, s.out = verifNondetU32(), verifNondetU32(), verifNondetU32(), verifNondetU32(), verifNondetU32()
		s.sw = [4]uint32{verifNondetU32(), verifNondetU32(), verifNondetU32(), verifNondetU32()}
		if kind == kFlowUnkRec {
			s.urFormat = verifNondetU32()
			verifAssume(verifAll(s.urFormat != SFDataRawHeader, s.urFormat != SFDataExtSwitch, s.urFormat != SFDataExtRouter))
			s.body = verifSkipBody()
		}
	case kCounterVlan, kCounterUnk:
		s.vlan = VlanCounters{verifNondetU32(), verifNondetU64(), verifNondetU32(), verifNondetU32(), verifNondetU32(), verifNondetU32()}
		if kind == kCounterUnk {
			// any record tag other than the six standard (enterprise 0) counter formats: unknown
			// standard formats and every vendor-specific one, whatever its low 12 bits are
			s.urFormat = verifNondetU32()
			verifAssume(verifAll(s.urFormat != SFGenericInterfaceCounters, s.urFormat != SFEthernetInterfaceCounters, s.urFormat != SFTokenRingInterfaceCounters,
				s.urFormat != SF100BaseVGInterfaceCounters, s.urFormat != SFVLANCounters, s.urFormat != SFProcessorCounters))
			s.body = verifSkipBody()
		}
	case kUnknown:
		s.format = verifNondetU32()
		verifAssume(verifAll(s.format>>12 == 0, s.format != DataFlowSample, s.format != DataCounterSample))
		s.body = verifSkipBody()
	case kVendor:
		s.format = verifNondetU32()
		verifAssume(s.format>>12 != 0)
		s.body = verifSkipBody()
	}
	return s
}

func (s verifSample) typeWord() uint32 {
	switch s.kind {
	case kFlowSwitch, kFlowUnkRec, kFlowRouter:
		return DataFlowSample
	case kCounterVlan, kCounterUnk:
		return DataCounterSample
	}
	return s.format
}

func (s verifSample) bodyLen() int {
	switch s.kind {
	case kFlowSwitch, kFlowRouter:
		return 32 + 8 + 16
	case kFlowUnkRec:
		return 32 + 8 + len(s.body) + 8 + 16
	case kCounterVlan:
		return 12 + 8 + 28
	case kCounterUnk:
		return 12 + 8 + len(s.body) + 8 + 28
	}
	return len(s.body)
}

func (s verifSample) write(w *verifW) {
	w.u32(s.typeWord())
	w.u32(uint32(s.bodyLen()))
	switch s.kind {
	case kFlowSwitch, kFlowUnkRec, kFlowRouter:
		w.u32(s.seq)
		w.u8(s.srcType)
		w.u8(s.srcIdx[0])
		w.u8(s.srcIdx[1])
		w.u8(s.srcIdx[2])
		w.u32(s.rate)
		w.u32(s.pool)
		w.u32(s.drops)
		w.u32(s.in)
		w.u32(s.out)
		if s.kind == kFlowUnkRec {
			w.u32(2)
			w.u32(s.urFormat)
			w.u32(uint32(len(s.body)))
			copy(w.b[w.o:], s.body)
			w.o += len(s.body)
		} else {
			w.u32(1)
		}
		if s.kind == kFlowRouter {
			w.u32(SFDataExtRouter)
			w.u32(16)
			w.u32(1) // next hop address type: IPv4
			w.u32(s.sw[1])
			w.u32(s.sw[2])
			w.u32(s.sw[3])
		} else {
			w.u32(SFDataExtSwitch)
			w.u32(16)
			for i := 0; i < 4; i++ {
				w.u32(s.sw[i])
			}
		}
	case kCounterVlan, kCounterUnk:
		w.u32(s.seq)
		w.u8(s.srcType)
		w.u8(s.srcIdx[0])
		w.u8(s.srcIdx[1])
		w.u8(s.srcIdx[2])
		if s.kind == kCounterUnk {
			w.u32(2)
			w.u32(s.urFormat)
			w.u32(uint32(len(s.body)))
			copy(w.b[w.o:], s.body)
			w.o += len(s.body)
		} else {
			w.u32(1)
		}
		w.u32(SFVLANCounters)
		w.u32(28)
		w.u32(s.vlan.ID)
		w.u64(s.vlan.Octets)
		w.u32(s.vlan.UnicastPackets)
		w.u32(s.vlan.MulticastPackets)
		w.u32(s.vlan.BroadcastPackets)
		w.u32(s.vlan.Discards)
	default:
		copy(w.b[w.o:], s.body)
		w.o += len(s.body)
	}
}

func verifCheckFlow(x Sample, s verifSample) {
	fs, ok := x.(*FlowSample)
	verifAssert(ok, "flow sample: Go type")
	verifAssert(verifAll(fs.SequenceNo == s.seq, fs.SourceID == s.srcType, fs.SamplingRate == s.rate, fs.SamplePool == s.pool, fs.Drops == s.drops, fs.Input == s.in, fs.Output == s.out), "flow sample: header fields")
	want := uint32(1)
	if s.kind == kFlowUnkRec {
		want = 2
	}
	verifAssert(fs.RecordsNo == want, "flow sample: number of records")
	verifAssert(len(fs.Records) == 1, "flow sample: only supported records are kept")
	if s.kind == kFlowRouter {
		// checked after the WHOLE datagram has been decoded: the address must still be this
		// sample's (it is a byte slice: it must not share memory with a later record's)
		er, okr := fs.Records["ExtRouter"].(*ExtRouterData)
		verifAssert(okr, "flow sample: extended router record present")
		verifAssert(len(er.NextHop) == 4, "flow sample: extended router next hop length")
		nh := uint32(verifAt(er.NextHop, 0))<<24 | uint32(verifAt(er.NextHop, 1))<<16 | uint32(verifAt(er.NextHop, 2))<<8 | uint32(verifAt(er.NextHop, 3))
		verifAssert(verifAll(nh == s.sw[1], er.SrcMask == s.sw[2], er.DstMask == s.sw[3]), "flow sample: extended router next hop and masks (still this sample's after the rest of the datagram was decoded)")
		return
	}
	r, ok2 := fs.Records["ExtSwitch"].(*ExtSwitchData)
	verifAssert(ok2, "flow sample: extended switch record present")
	verifAssert(verifAll(r.SrcVlan == s.sw[0], r.SrcPriority == s.sw[1], r.DstVlan == s.sw[2], r.DstPriority == s.sw[3]), "flow sample: extended switch fields (an unknown record before it is skipped by its length)")
}

func verifCheckCounter(x Counter, s verifSample) {
	cs, ok := x.(*CounterSample)
	verifAssert(ok, "counter sample: Go type")
	idx := uint32(s.srcIdx[0])<<16 | uint32(s.srcIdx[1])<<8 | uint32(s.srcIdx[2])
	want := uint32(1)
	if s.kind == kCounterUnk {
		want = 2
	}
	verifAssert(verifAll(cs.SequenceNo == s.seq, cs.SourceIDType == s.srcType, cs.SourceIDIdx == idx, cs.RecordsNo == want), "counter sample: header fields")
	v, ok2 := cs.Records["Vlan"].(*VlanCounters)
	verifAssert(verifAll(ok2, len(cs.Records) == 1), "counter sample: VLAN record present, and only supported records are kept (an unknown or vendor-specific record before it is skipped by its length)")
	verifAssert(*v == s.vlan, "counter sample: VLAN counters")
}

type verifHdr struct {
	v6                       bool
	addr                     []byte
	sub, seq, uptime         uint32
}

func verifBuild(ss []verifSample) ([]byte, verifHdr) {
	var h verifHdr
	h.v6 = verifCase(2) == 1
	al := 4
	if h.v6 {
		al = 16
	}
	h.addr = verifNondetBytes(al)
	h.sub, h.seq, h.uptime = verifNondetU32(), verifNondetU32(), verifNondetU32()
	total := 8 + al + 16
	for _, s := range ss {
		total += 8 + s.bodyLen()
	}
	w := &verifW{b: make([]byte, total)}
	w.u32(5)
	if h.v6 {
		w.u32(2)
	} else {
		w.u32(1)
	}
	for i := 0; i < al; i++ {
		w.u8(h.addr[i])
	}
	w.u32(h.sub)
	w.u32(h.seq)
	w.u32(h.uptime)
	w.u32(uint32(len(ss)))
	for _, s := range ss {
		s.write(w)
	}
	return w.b, h
}

func verifCheckHeader(d *SFDatagram, h verifHdr, n int) {
	ipv := uint32(1)
	if h.v6 {
		ipv = 2
	}
	verifAssert(verifAll(d.Version == 5, d.IPVersion == ipv, d.AgentSubID == h.sub, d.SequenceNo == h.seq, d.SysUpTime == h.uptime, d.SamplesNo == uint32(n)), "datagram header fields")
	verifAssert(verifBytesEq(d.IPAddress, h.addr), "agent address")
}

// the samples a decoder must return for ss when the formats in filter are filtered out
func verifExpect(d *SFDatagram, ss []verifSample, filtered func(verifSample) bool) {
	fi, ci := 0, 0
	for _, s := range ss {
		if filtered(s) {
			continue
		}
		switch s.kind {
		case kFlowSwitch, kFlowUnkRec, kFlowRouter:
			verifAssert(fi < len(d.Samples), "every flow sample is returned")
			verifCheckFlow(d.Samples[fi], s)
			fi++
		case kCounterVlan, kCounterUnk:
			verifAssert(ci < len(d.Counters), "every counter sample is returned")
			verifCheckCounter(d.Counters[ci], s)
			ci++
		}
	}
	verifAssert(verifAll(fi == len(d.Samples), ci == len(d.Counters)), "nothing else is returned")
}

// two samples: their kinds are the split (49 combinations); further samples (param) fork
func verifSamples() []verifSample {
	n := verifParam("samples", 2)
	sp := verifSplit(nKinds * nKinds)
	var ss []verifSample
	for i := 0; i < n; i++ {
		k := 0
		switch i {
		case 0:
			k = sp / nKinds
		case 1:
			k = sp % nKinds
		default:
			k = verifCase(nKinds)
		}
		ss = append(ss, verifArbSample(k))
	}
	return ss
}

// C07: every sample of a supported type, in wire order, field for field; the others skipped.
func VerifSFDatagramStructured() {
	ss := verifSamples()
	buf, h := verifBuild(ss)
	d := NewSFDecoder(bytes.NewReader(buf), nil)
	dg, err := d.SFDecode()
	verifAssert(err == nil, "well-formed datagram decodes without error")
	verifAssert(dg != nil, "well-formed datagram yields a datagram")
	verifCheckHeader(dg, h, len(ss))
	verifExpect(dg, ss, func(verifSample) bool { return false })
	verifReach("end")
}

// C18: with a type filter, exactly the listed sample types are omitted; every other sample
// and counter is decoded exactly as without the filter.
func VerifSFFilter() {
	ss := verifSamples()
	buf, h := verifBuild(ss)
	nf := verifCase(3) // filter list of 0, 1 or 2 entries
	var filter []uint32
	for i := 0; i < nf; i++ {
		filter = append(filter, verifNondetU32())
	}
	d := NewSFDecoder(bytes.NewReader(buf), filter)
	dg, err := d.SFDecode()
	verifAssert(err == nil, "well-formed datagram decodes without error")
	verifAssert(dg != nil, "well-formed datagram yields a datagram")
	verifCheckHeader(dg, h, len(ss))
	verifExpect(dg, ss, func(s verifSample) bool {
		if s.kind == kVendor {
			return false // skipped anyway
		}
		m := false
		for _, f := range filter {
			m = verifAny(m, f == s.typeWord()&0xfff)
		}
		return m
	})
	verifReach("end")
}
