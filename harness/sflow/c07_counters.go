//go:build verif

package sflow

// C07: the six counter record layouts, word for word (sFlow v5 counter structures;
// u32 = 4 octets, u64 = 8 octets, in declaration order).

func VerifSFCountersGen() {
	r, buf, pos := verifArbReader()
	c, err := decodeGenericIntCounters(r)
	if len(buf)-pos >= 88 {
		verifAssert(err == nil, "GenInt: 88 octets available: must decode")
		o := pos
		verifAssert(verifAll(c.Index == be32(buf, o), c.Type == be32(buf, o+4), c.Speed == be64(buf, o+8), c.Direction == be32(buf, o+16), c.Status == be32(buf, o+20)), "GenInt: Index/Type/Speed/Direction/Status")
		verifAssert(verifAll(c.InOctets == be64(buf, o+24), c.InUnicastPackets == be32(buf, o+32), c.InMulticastPackets == be32(buf, o+36), c.InBroadcastPackets == be32(buf, o+40)), "GenInt: InOctets/InUnicast/InMulticast/InBroadcast")
		verifAssert(verifAll(c.InDiscards == be32(buf, o+44), c.InErrors == be32(buf, o+48), c.InUnknownProtocols == be32(buf, o+52)), "GenInt: InDiscards/InErrors/InUnknownProtocols")
		verifAssert(verifAll(c.OutOctets == be64(buf, o+56), c.OutUnicastPackets == be32(buf, o+64), c.OutMulticastPackets == be32(buf, o+68), c.OutBroadcastPackets == be32(buf, o+72)), "GenInt: OutOctets/OutUnicast/OutMulticast/OutBroadcast")
		verifAssert(verifAll(c.OutDiscards == be32(buf, o+76), c.OutErrors == be32(buf, o+80), c.PromiscuousMode == be32(buf, o+84)), "GenInt: OutDiscards/OutErrors/PromiscuousMode")
		verifAssert(verifPos(r, len(buf)) == pos+88, "GenInt: consumes 88 octets")
	} else {
		verifAssert(err != nil, "GenInt: short input must fail")
	}
	verifReach("end")
}

func VerifSFCountersEth() {
	r, buf, pos := verifArbReader()
	c, err := decodeEthIntCounters(r)
	if len(buf)-pos >= 52 {
		verifAssert(err == nil, "EthInt: 52 octets available: must decode")
		o := pos
		verifAssert(verifAll(c.AlignmentErrors == be32(buf, o), c.FCSErrors == be32(buf, o+4), c.SingleCollisionFrames == be32(buf, o+8), c.MultipleCollisionFrames == be32(buf, o+12), c.SQETestErrors == be32(buf, o+16)), "EthInt: words 0-4")
		verifAssert(verifAll(c.DeferredTransmissions == be32(buf, o+20), c.LateCollisions == be32(buf, o+24), c.ExcessiveCollisions == be32(buf, o+28), c.InternalMACTransmitErrors == be32(buf, o+32)), "EthInt: words 5-8")
		verifAssert(verifAll(c.CarrierSenseErrors == be32(buf, o+36), c.FrameTooLongs == be32(buf, o+40), c.InternalMACReceiveErrors == be32(buf, o+44), c.SymbolErrors == be32(buf, o+48)), "EthInt: words 9-12")
		verifAssert(verifPos(r, len(buf)) == pos+52, "EthInt: consumes 52 octets")
	} else {
		verifAssert(err != nil, "EthInt: short input must fail")
	}
	verifReach("end")
}

func VerifSFCountersTR() {
	r, buf, pos := verifArbReader()
	c, err := decodeTokenRingCounters(r)
	if len(buf)-pos >= 72 {
		verifAssert(err == nil, "TokenRing: 72 octets available: must decode")
		o := pos
		verifAssert(verifAll(c.LineErrors == be32(buf, o), c.BurstErrors == be32(buf, o+4), c.ACErrors == be32(buf, o+8), c.AbortTransErrors == be32(buf, o+12), c.InternalErrors == be32(buf, o+16), c.LostFrameErrors == be32(buf, o+20)), "TokenRing: words 0-5")
		verifAssert(verifAll(c.ReceiveCongestions == be32(buf, o+24), c.FrameCopiedErrors == be32(buf, o+28), c.TokenErrors == be32(buf, o+32), c.SoftErrors == be32(buf, o+36), c.HardErrors == be32(buf, o+40), c.SignalLoss == be32(buf, o+44)), "TokenRing: words 6-11")
		verifAssert(verifAll(c.TransmitBeacons == be32(buf, o+48), c.Recoverys == be32(buf, o+52), c.LobeWires == be32(buf, o+56), c.Removes == be32(buf, o+60), c.Singles == be32(buf, o+64), c.FreqErrors == be32(buf, o+68)), "TokenRing: words 12-17")
		verifAssert(verifPos(r, len(buf)) == pos+72, "TokenRing: consumes 72 octets")
	} else {
		verifAssert(err != nil, "TokenRing: short input must fail")
	}
	verifReach("end")
}

func VerifSFCountersVG() {
	r, buf, pos := verifArbReader()
	c, err := decodeVGCounters(r)
	if len(buf)-pos >= 80 {
		verifAssert(err == nil, "VG: 80 octets available: must decode")
		o := pos
		verifAssert(verifAll(c.InHighPriorityFrames == be32(buf, o), c.InHighPriorityOctets == be64(buf, o+4), c.InNormPriorityFrames == be32(buf, o+12), c.InNormPriorityOctets == be64(buf, o+16)), "VG: InHigh/InNorm frames and octets")
		verifAssert(verifAll(c.InIPMErrors == be32(buf, o+24), c.InOversizeFrameErrors == be32(buf, o+28), c.InDataErrors == be32(buf, o+32), c.InNullAddressedFrames == be32(buf, o+36)), "VG: In errors")
		verifAssert(verifAll(c.OutHighPriorityFrames == be32(buf, o+40), c.OutHighPriorityOctets == be64(buf, o+44), c.TransitionIntoTrainings == be32(buf, o+52)), "VG: OutHigh/Transitions")
		verifAssert(verifAll(c.HCInHighPriorityOctets == be64(buf, o+56), c.HCInNormPriorityOctets == be64(buf, o+64), c.HCOutHighPriorityOctets == be64(buf, o+72)), "VG: HC octets")
		verifAssert(verifPos(r, len(buf)) == pos+80, "VG: consumes 80 octets")
	} else {
		verifAssert(err != nil, "VG: short input must fail")
	}
	verifReach("end")
}

func VerifSFCountersVlan() {
	r, buf, pos := verifArbReader()
	c, err := decodeVlanCounters(r)
	if len(buf)-pos >= 28 {
		verifAssert(err == nil, "Vlan: 28 octets available: must decode")
		o := pos
		verifAssert(verifAll(c.ID == be32(buf, o), c.Octets == be64(buf, o+4), c.UnicastPackets == be32(buf, o+12), c.MulticastPackets == be32(buf, o+16), c.BroadcastPackets == be32(buf, o+20), c.Discards == be32(buf, o+24)), "Vlan: all fields")
		verifAssert(verifPos(r, len(buf)) == pos+28, "Vlan: consumes 28 octets")
	} else {
		verifAssert(err != nil, "Vlan: short input must fail")
	}
	verifReach("end")
}

func VerifSFCountersProc() {
	r, buf, pos := verifArbReader()
	c, err := decodedProcessorCounters(r)
	if len(buf)-pos >= 28 {
		verifAssert(err == nil, "Processor: 28 octets available: must decode")
		o := pos
		verifAssert(verifAll(c.CPU5s == be32(buf, o), c.CPU1m == be32(buf, o+4), c.CPU5m == be32(buf, o+8), c.TotalMemory == be64(buf, o+12), c.FreeMemory == be64(buf, o+20)), "Processor: all fields")
		verifAssert(verifPos(r, len(buf)) == pos+28, "Processor: consumes 28 octets")
	} else {
		verifAssert(err != nil, "Processor: short input must fail")
	}
	verifReach("end")
}
