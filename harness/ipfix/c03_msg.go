//go:build verif

package ipfix

import "net"

// Whole messages through the real Decode, real cache, real Interpret.
// Template: field 1 = unsigned32 (4 octets), field 2 = string, variable length (1-octet prefix).

type verifW struct {
	b []byte
	o int
}

func (w *verifW) u8(v uint8)   { w.b[w.o] = v; w.o++ }
func (w *verifW) u16(v uint16) { w.u8(uint8(v >> 8)); w.u8(uint8(v)) }
func (w *verifW) u32(v uint32) { w.u16(uint16(v >> 16)); w.u16(uint16(v)) }
func (w *verifW) bytes(b []byte) {
	for i := range b {
		w.u8(b[i])
	}
}

type verifTpl struct {
	fd         verifField // the decoy template's only field: octetArray, 6 octets
	decoy      uint16
	tid        uint16
	f1, f2     verifField
	ent1, ent2 bool
}

func verifMsgTemplate() verifTpl {
	InfoModel = IANAInfoModel{}
	var t verifTpl
	t.tid = verifNondetU16()
	verifAssume(t.tid > 255)
	t.decoy = verifNondetU16()
	verifAssume(verifAll(t.decoy > 255, t.decoy != t.tid))
	t.f1 = verifArbField(Uint32, 0)
	t.f2 = verifArbField(String, 2)
	t.fd = verifArbField(OctetArray, 0)
	verifAssume(verifAll(t.fd.spec.Length == 6, t.fd.spec.EnterpriseNo == 0))
	// enterprise bit on the wire iff the enterprise number is non-zero (the decoder zeroes it otherwise)
	t.ent1 = verifCase(2) == 1
	if !t.ent1 {
		verifAssume(t.f1.spec.EnterpriseNo == 0)
	}
	verifAssume(t.f2.spec.EnterpriseNo == 0)
	return t
}

// the template set carries TWO template records: a decoy (another id, one unsigned16 field)
// and then the real one, so that per-record state of the template parser matters
func (t verifTpl) tplSetLen() int {
	if t.ent1 {
		return 4 + 8 + 4 + 8 + 4
	}
	return 4 + 8 + 4 + 4 + 4
}

func (t verifTpl) writeTplSet(w *verifW, pad int) {
	w.u16(2)
	w.u16(uint16(t.tplSetLen() + pad))
	w.u16(t.decoy)
	w.u16(1)
	w.u16(t.fd.spec.ElementID)
	w.u16(6)
	w.u16(t.tid)
	w.u16(2)
	if t.ent1 {
		w.u16(t.f1.spec.ElementID | 0x8000)
		w.u16(4)
		w.u32(t.f1.spec.EnterpriseNo)
	} else {
		w.u16(t.f1.spec.ElementID)
		w.u16(4)
	}
	w.u16(t.f2.spec.ElementID)
	w.u16(65535)
	for i := 0; i < pad; i++ {
		w.u8(0)
	}
}

type verifRec struct {
	v   uint32
	s   []byte
	l   int
}

func verifArbRec() verifRec {
	l := verifCase(3) // string length 0..2
	return verifRec{v: verifNondetU32(), s: verifNondetBytes(l), l: l}
}

func (r verifRec) len() int { return 4 + 1 + r.l }
func (r verifRec) write(w *verifW) {
	w.u32(r.v)
	w.u8(uint8(r.l))
	for i := 0; i < r.l; i++ {
		w.u8(r.s[i])
	}
}

func verifWriteHeader(w *verifW, total int) (exp, seq, dom uint32) {
	exp, seq, dom = verifNondetU32(), verifNondetU32(), verifNondetU32()
	w.u16(10)
	w.u16(uint16(total))
	w.u32(exp)
	w.u32(seq)
	w.u32(dom)
	return
}

func verifCheckRec(fs []DecodedField, t verifTpl, r verifRec) {
	verifAssert(len(fs) == 2, "record has one entry per template field")
	verifAssert(verifAll(fs[0].ID == t.f1.entry.FieldID, fs[0].EnterpriseNo == t.f1.spec.EnterpriseNo), "field 1: id and enterprise number")
	x, ok := fs[0].Value.(uint32)
	verifAssert(verifAll(ok, x == r.v), "field 1: unsigned32 value")
	verifAssert(verifAll(fs[1].ID == t.f2.entry.FieldID, fs[1].EnterpriseNo == 0), "field 2: id and enterprise number")
	s, ok2 := fs[1].Value.(string)
	verifAssert(ok2, "field 2: string")
	verifAssert(verifStrEq(s, string(r.s)), "field 2: text")
}

// (d) template and data in one message; two records; set padding 0..3; template set padding 0 or 4.
func VerifIPFIXMessageOne() {
	t := verifMsgTemplate()
	r1, r2 := verifArbRec(), verifArbRec()
	r3 := verifRec{v: verifNondetU32(), s: verifNondetBytes(1), l: 1}
	pad := verifCase(4)
	tpad := 4 * verifCase(2)
	dlen := 4 + r1.len() + r2.len() + r3.len() + pad
	dec := verifNondetBytes(6) // one record of the decoy template, in a data set of its own
	total := 16 + t.tplSetLen() + tpad + dlen + 10
	w := &verifW{b: make([]byte, total)}
	exp, seq, dom := verifWriteHeader(w, total)
	t.writeTplSet(w, tpad)
	w.u16(t.tid)
	w.u16(uint16(dlen))
	r1.write(w)
	r2.write(w)
	r3.write(w)
	for i := 0; i < pad; i++ {
		w.u8(0)
	}
	w.u16(t.decoy)
	w.u16(10)
	w.bytes(dec)
	// two shards instead of 32 (the sharding arithmetic is C04's subject; here every cache
	// access with a symbolic key would fork over all shards)
	addr := net.IP{198, 51, 100, 77} // (the exporter address plays no role here; C04 covers it)
	shardNo = 2
	m := verifNewCache()
	verifAssume(int(verifRefHash(addr, t.tid)%2) == verifSplit(2))
	if verifKnown("C04-hash-collision") {
		verifAssume(verifRefHash(addr, t.tid) != verifRefHash(addr, t.decoy))
	}
	msg, err := NewDecoder(addr, w.b).Decode(m)
	verifAssert(err == nil, "well-formed message decodes without error")
	verifAssert(msg != nil, "well-formed message yields a message")
	h := msg.Header
	verifAssert(verifAll(h.Version == 10, int(h.Length) == total, h.ExportTime == exp, h.SequenceNo == seq, h.DomainID == dom), "message header fields")
	verifAssert(len(msg.DataSets) == 4, "exactly one entry per data record")
	verifCheckRec(msg.DataSets[0], t, r1)
	verifCheckRec(msg.DataSets[1], t, r2)
	verifCheckRec(msg.DataSets[2], t, r3)
	// the record of the first template of the template set (decoded with ITS template)
	verifAssert(len(msg.DataSets[3]) == 1, "decoy record has its one field")
	verifAssert(msg.DataSets[3][0].ID == t.fd.entry.FieldID, "decoy record: element id")
	dv, okd := msg.DataSets[3][0].Value.([]byte)
	verifAssert(okd, "decoy record: octetArray value")
	verifAssert(verifBytesEq(dv, dec), "decoy record: octets")
	verifReach("end")
}

// (C04) a template re-announced with another definition in the same message is the one in
// force for the data set that follows: first definition = one unsigned32 field, second = the
// two-field template; the record has both fields.
func VerifIPFIXReannounce() {
	t := verifMsgTemplate()
	r1 := verifArbRec()
	old := 4 + 8 // set header + template record with one field
	dlen := 4 + r1.len()
	total := 16 + old + t.tplSetLen() + dlen
	w := &verifW{b: make([]byte, total)}
	verifWriteHeader(w, total)
	w.u16(2)
	w.u16(uint16(old))
	w.u16(t.tid)
	w.u16(1)
	w.u16(t.f1.spec.ElementID)
	w.u16(4)
	t.writeTplSet(w, 0)
	w.u16(t.tid)
	w.u16(uint16(dlen))
	r1.write(w)
	verifAssume(!t.ent1)
	addr := net.IP{192, 0, 2, 9}
	shardNo = 2
	m := verifNewCache()
	verifAssume(int(verifRefHash(addr, t.tid)%2) == verifSplit(2))
	if verifKnown("C04-hash-collision") {
		verifAssume(verifRefHash(addr, t.tid) != verifRefHash(addr, t.decoy))
	}
	msg, err := NewDecoder(addr, w.b).Decode(m)
	verifAssert(verifAll(err == nil, msg != nil), "message with a re-announced template decodes")
	verifAssert(len(msg.DataSets) == 1, "one record")
	verifCheckRec(msg.DataSets[0], t, r1)
	verifReach("end")
}

// (c) template announced in an earlier datagram; data from the same exporter decodes with it,
// data from another exporter (or under another id) is reported unknown and yields no records.
func VerifIPFIXMessageTwo() {
	t := verifMsgTemplate()
	r1 := verifArbRec()
	// datagram 1: template only
	total1 := 16 + t.tplSetLen()
	w1 := &verifW{b: make([]byte, total1)}
	verifWriteHeader(w1, total1)
	t.writeTplSet(w1, 0)
	// datagram 2: one data set under id 'did'
	did := verifNondetU16()
	verifAssume(did > 255)
	dlen := 4 + r1.len()
	total2 := 16 + dlen
	w2 := &verifW{b: make([]byte, total2)}
	verifWriteHeader(w2, total2)
	w2.u16(did)
	w2.u16(uint16(dlen))
	r1.write(w2)

	a := net.IP(verifNondetBytes(4))
	b := net.IP(verifNondetBytes(4))
	shardNo = 2
	m := verifNewCache()
	verifAssume(int(verifRefHash(a, t.tid)%2) == verifSplit(2))
	same := verifAll(verifAddrEq(a, b), did == t.tid)
	// the first datagram also announces the decoy template: data under that id is not "unknown"
	verifAssume(!verifAll(verifAddrEq(a, b), did == t.decoy))
	if verifKnown("C04-hash-collision") {
		verifAssume(verifRefHash(a, t.tid) != verifRefHash(a, t.decoy))
		if !same {
			verifAssume(verifAll(verifRefHash(a, t.tid) != verifRefHash(b, did), verifRefHash(a, t.decoy) != verifRefHash(b, did)))
		}
	}
	msg1, err1 := NewDecoder(a, w1.b).Decode(m)
	verifAssert(verifAll(err1 == nil, msg1 != nil), "template-only message decodes")
	verifAssert(len(msg1.DataSets) == 0, "template-only message yields no records")
	msg2, err2 := NewDecoder(b, w2.b).Decode(m)
	verifAssert(msg2 != nil, "data message yields a message")
	if same {
		verifAssert(err2 == nil, "data for an announced template decodes")
		verifAssert(len(msg2.DataSets) == 1, "one record")
		verifCheckRec(msg2.DataSets[0], t, r1)
	} else {
		verifAssert(err2 != nil, "data whose template this exporter has not announced is reported")
		verifAssert(len(msg2.DataSets) == 0, "and yields no records")
	}
	verifReach("end")
}

// witness of the known finding C03-short-records: records of <= 4 octets are taken for padding.
// Template with one unsigned16 field; two 2-octet records in one data set.
func VerifKFIPFIXShortRecords() {
	InfoModel = IANAInfoModel{}
	f := verifArbField(Uint16, 0)
	verifAssume(f.spec.EnterpriseNo == 0)
	tid := verifNondetU16()
	verifAssume(tid > 255)
	total := 16 + 12 + 8
	w := &verifW{b: make([]byte, total)}
	verifWriteHeader(w, total)
	w.u16(2)
	w.u16(12)
	w.u16(tid)
	w.u16(1)
	w.u16(f.spec.ElementID)
	w.u16(2)
	v1, v2 := verifNondetU16(), verifNondetU16()
	w.u16(tid)
	w.u16(8)
	w.u16(v1)
	w.u16(v2)
	addr := net.IP(verifNondetBytes(4))
	m := verifNewCache()
	_, h1 := m.getShard(tid, addr)
	verifAssume(int(h1%32) == 0)
	msg, _ := NewDecoder(addr, w.b).Decode(m)
	verifAssert(msg != nil, "message decodes")
	verifAssert(len(msg.DataSets) == 2, "short records: exactly one entry per data record")
	verifReach("end")
}

// (C04) re-announcement in general: definition A of a template id is followed by definition B
// of the same id by the same exporter, in the same message or in a later datagram. Both have two
// unsigned32 fields (options template: the first is a scope field; plain template: both are
// ordinary fields). B's first and second field are, independently, the same element as in A or
// another one — so B may differ from A in the scope field only, in the other field only, in
// both, or not at all. The record that follows must carry B's element ids, whatever B changed.
func VerifIPFIXReannounceAny() {
	InfoModel = IANAInfoModel{}
	tid := verifNondetU16()
	verifAssume(tid > 255)
	a1, a2 := verifArbField(Uint32, 0), verifArbField(Uint32, 0)
	n1, n2 := verifArbField(Uint32, 0), verifArbField(Uint32, 0)
	verifAssume(verifAll(a1.spec.EnterpriseNo == 0, a2.spec.EnterpriseNo == 0, n1.spec.EnterpriseNo == 0, n2.spec.EnterpriseNo == 0))
	b1, b2 := a1, a2
	if verifCase(2) == 1 {
		b1 = n1
	}
	if verifCase(2) == 1 {
		b2 = n2
	}
	opts := verifCase(2) == 1
	layout := verifCase(3) // 0: A, B, data in one message; 1: A in an earlier datagram; 2: A, data, B, data in one message
	two := layout == 1
	tset := func(w *verifW, f1, f2 verifField) {
		if opts {
			w.u16(3)
			w.u16(4 + 6 + 8)
			w.u16(tid)
			w.u16(2)
			w.u16(1)
		} else {
			w.u16(2)
			w.u16(4 + 4 + 8)
			w.u16(tid)
			w.u16(2)
		}
		w.u16(f1.spec.ElementID)
		w.u16(4)
		w.u16(f2.spec.ElementID)
		w.u16(4)
	}
	tl := 4 + 4 + 8
	if opts {
		tl = 4 + 6 + 8
	}
	v1, v2 := verifNondetU32(), verifNondetU32()
	addr := net.IP{192, 0, 2, 9}
	shardNo = 2
	m := verifNewCache()
	var msg *Message
	var err error
	if two {
		w1 := &verifW{b: make([]byte, 16+tl)}
		verifWriteHeader(w1, 16+tl)
		tset(w1, a1, a2)
		_, err1 := NewDecoder(addr, w1.b).Decode(m)
		verifAssert(err1 == nil, "first announcement decodes")
		w2 := &verifW{b: make([]byte, 16+tl+12)}
		verifWriteHeader(w2, 16+tl+12)
		tset(w2, b1, b2)
		w2.u16(tid)
		w2.u16(12)
		w2.u32(v1)
		w2.u32(v2)
		msg, err = NewDecoder(addr, w2.b).Decode(m)
	} else if layout == 2 {
		// data for the id on both sides of the re-announcement: each set is decoded with the
		// definition in force where it stands
		u1, u2 := verifNondetU32(), verifNondetU32()
		w := &verifW{b: make([]byte, 16+2*tl+24)}
		verifWriteHeader(w, 16+2*tl+24)
		tset(w, a1, a2)
		w.u16(tid)
		w.u16(12)
		w.u32(u1)
		w.u32(u2)
		tset(w, b1, b2)
		w.u16(tid)
		w.u16(12)
		w.u32(v1)
		w.u32(v2)
		msg, err = NewDecoder(addr, w.b).Decode(m)
		verifAssert(verifAll(err == nil, msg != nil), "message with a re-announced template decodes")
		verifAssert(len(msg.DataSets) == 2, "one record per data set")
		f0 := msg.DataSets[0]
		verifAssert(len(f0) == 2, "record has one entry per template field")
		verifAssert(verifAll(f0[0].ID == a1.entry.FieldID, f0[1].ID == a2.entry.FieldID), "the record BEFORE the re-announcement is decoded with the first definition")
		y1, oy1 := f0[0].Value.(uint32)
		y2, oy2 := f0[1].Value.(uint32)
		verifAssert(verifAll(oy1, oy2, y1 == u1, y2 == u2), "the first record's values")
		msg.DataSets = msg.DataSets[1:]
	} else {
		w := &verifW{b: make([]byte, 16+2*tl+12)}
		verifWriteHeader(w, 16+2*tl+12)
		tset(w, a1, a2)
		tset(w, b1, b2)
		w.u16(tid)
		w.u16(12)
		w.u32(v1)
		w.u32(v2)
		msg, err = NewDecoder(addr, w.b).Decode(m)
	}
	verifAssert(verifAll(err == nil, msg != nil), "message with a re-announced template decodes")
	verifAssert(len(msg.DataSets) == 1, "one record")
	fs := msg.DataSets[0]
	verifAssert(len(fs) == 2, "record has one entry per template field")
	verifAssert(verifAll(fs[0].ID == b1.entry.FieldID, fs[1].ID == b2.entry.FieldID), "the record is decoded with the LATEST definition of the template (element ids)")
	x1, ok1 := fs[0].Value.(uint32)
	x2, ok2 := fs[1].Value.(uint32)
	verifAssert(verifAll(ok1, ok2, x1 == v1, x2 == v2), "the record's values")
	got, ok := m.retrieve(tid, addr)
	verifAssert(ok, "the template is in the cache")
	if opts {
		verifAssert(verifAll(len(got.ScopeFieldSpecifiers) == 1, len(got.FieldSpecifiers) == 1), "cached options template: one scope field, one field")
		verifAssert(verifAll(got.ScopeFieldSpecifiers[0].ElementID == b1.spec.ElementID, got.FieldSpecifiers[0].ElementID == b2.spec.ElementID), "the cache holds the latest definition")
	} else {
		verifAssert(len(got.FieldSpecifiers) == 2, "cached template: two fields")
		verifAssert(verifAll(got.FieldSpecifiers[0].ElementID == b1.spec.ElementID, got.FieldSpecifiers[1].ElementID == b2.spec.ElementID), "the cache holds the latest definition")
	}
	verifReach("end")
}
