//go:build verif

package ipfix

import (
	"math"
	"net"

	"github.com/EdgeCast/vflow/reader"
)

// C03 — IPFIX data records are decoded exactly as their templates describe.
// Reference decoder: offset arithmetic over the raw octets (RFC 7011), no encoding/binary,
// no reader. The information model is a small map with SYMBOLIC entries (any element id,
// any enterprise number, the chosen abstract type): what is shown holds for every
// information model that contains the elements the template uses.

func rd8(b []byte, o int) uint8 { return verifAt(b, o) }
func rd16(b []byte, o int) uint16 { return uint16(verifAt(b, o))<<8 | uint16(verifAt(b, o+1)) }
func rd32(b []byte, o int) uint32 {
	return uint32(verifAt(b, o))<<24 | uint32(verifAt(b, o+1))<<16 | uint32(verifAt(b, o+2))<<8 | uint32(verifAt(b, o+3))
}
func rd64(b []byte, o int) uint64 { return uint64(rd32(b, o))<<32 | uint64(rd32(b, o+4)) }

// size of an abstract data type (RFC 7011 section 6.1)
func verifTypeSize(t FieldType) int {
	switch t {
	case Boolean, Uint8, Int8:
		return 1
	case Uint16, Int16:
		return 2
	case Uint32, Int32, Float32, DateTimeSeconds, Ipv4Address:
		return 4
	case Uint64, Int64, Float64, DateTimeMilliseconds, DateTimeMicroseconds, DateTimeNanoseconds:
		return 8
	case MacAddress:
		return 6
	case Ipv6Address:
		return 16
	}
	return 0 // string, octetArray, unknown: any length
}

type verifField struct {
	spec  TemplateFieldSpecifier
	entry InfoElementEntry
	t     FieldType
	class int // 0 exact/free length, 1 shorter than the type, 2 var-len 1-octet prefix, 3 var-len 3-octet prefix
}

// an arbitrary field of abstract type t in length class c, registered in the information model
func verifArbField(t FieldType, c int) verifField {
	f := verifField{t: t, class: c}
	f.spec.ElementID = verifNondetU16()
	f.spec.EnterpriseNo = verifNondetU32()
	verifAssume(f.spec.ElementID < 0x8000)
	sz := verifTypeSize(t)
	l := verifNondetU16()
	switch c {
	case 0:
		if sz > 0 {
			verifAssume(int(l) == sz)
		} else {
			verifAssume(l <= 6)
		}
	case 1:
		verifAssume(verifAll(sz > 1, int(l) < sz, l >= 1))
	default:
		verifAssume(verifAny(t == String, t == OctetArray))
		verifAssume(l == 65535)
	}
	f.spec.Length = l
	f.entry = InfoElementEntry{FieldID: verifNondetU16(), Name: "verif", Type: t}
	// a different element than the ones registered so far
	_, dup := InfoModel[ElementKey{f.spec.EnterpriseNo, f.spec.ElementID}]
	verifAssume(!dup)
	InfoModel[ElementKey{f.spec.EnterpriseNo, f.spec.ElementID}] = f.entry
	return f
}

// wire length and payload offset of field f starting at offset o (ok=false: not enough octets)
func verifFieldExtent(buf []byte, n, o int, f verifField) (start, length int, ok bool) {
	switch f.class {
	case 2:
		if o+1 > n {
			return 0, 0, false
		}
		l := int(rd8(buf, o))
		verifAssume(l < 255)
		verifAssume(l <= verifParam("maxvar", 6))
		return o + 1, l, o+1+l <= n
	case 3:
		if o+1 > n {
			return 0, 0, false
		}
		verifAssume(rd8(buf, o) == 255)
		if o+3 > n {
			return 0, 0, false
		}
		l := int(rd16(buf, o+1))
		verifAssume(l <= verifParam("maxvar", 6))
		return o + 3, l, o+3+l <= n
	}
	return o, int(f.spec.Length), o+int(f.spec.Length) <= n
}

func verifBytesAre(v []byte, buf []byte, o, l int, what string) {
	verifAssert(len(v) == l, what+": length")
	j := verifNondetInt()
	verifAssume(verifAll(j >= 0, j < l))
	verifAssert(verifAt(v, j) == verifAt(buf, o+j), what+": octets")
}

// the decoded value must be the interpretation of buf[o:o+l] as type t
func verifCheckValue(v interface{}, buf []byte, o, l int, t FieldType) {
	if l < verifTypeSize(t) {
		raw, ok := v.([]byte)
		verifAssert(ok, "field shorter than its type: raw octets")
		verifBytesAre(raw, buf, o, l, "short field")
		return
	}
	switch t {
	case Boolean:
		x, ok := v.(bool)
		verifAssert(ok, "boolean: Go type")
		verifAssert(x == (rd8(buf, o) == 1), "boolean: value")
	case Uint8:
		x, ok := v.(uint8)
		verifAssert(verifAll(ok, x == rd8(buf, o)), "unsigned8")
	case Uint16:
		x, ok := v.(uint16)
		verifAssert(verifAll(ok, x == rd16(buf, o)), "unsigned16")
	case Uint32:
		x, ok := v.(uint32)
		verifAssert(verifAll(ok, x == rd32(buf, o)), "unsigned32")
	case Uint64:
		x, ok := v.(uint64)
		verifAssert(verifAll(ok, x == rd64(buf, o)), "unsigned64")
	case Int8:
		x, ok := v.(int8)
		verifAssert(verifAll(ok, x == int8(rd8(buf, o))), "signed8")
	case Int16:
		x, ok := v.(int16)
		verifAssert(verifAll(ok, x == int16(rd16(buf, o))), "signed16")
	case Int32:
		x, ok := v.(int32)
		verifAssert(verifAll(ok, x == int32(rd32(buf, o))), "signed32")
	case Int64:
		x, ok := v.(int64)
		verifAssert(verifAll(ok, x == int64(rd64(buf, o))), "signed64")
	case Float32:
		x, ok := v.(float32)
		verifAssert(ok, "float32: Go type")
		verifAssert(math.Float32bits(x) == rd32(buf, o), "float32: bit pattern")
	case Float64:
		x, ok := v.(float64)
		verifAssert(ok, "float64: Go type")
		verifAssert(math.Float64bits(x) == rd64(buf, o), "float64: bit pattern")
	case MacAddress:
		x, ok := v.(net.HardwareAddr)
		verifAssert(ok, "macAddress: Go type")
		verifBytesAre(x, buf, o, l, "macAddress")
	case String:
		x, ok := v.(string)
		verifAssert(ok, "string: Go type")
		verifAssert(verifStrEq(x, string(buf[o:o+l])), "string: text")
	case Ipv4Address, Ipv6Address:
		x, ok := v.(net.IP)
		verifAssert(ok, "ipAddress: Go type")
		verifBytesAre(x, buf, o, l, "ipAddress")
	case DateTimeSeconds:
		x, ok := v.(uint32)
		verifAssert(verifAll(ok, x == rd32(buf, o)), "dateTimeSeconds")
	case DateTimeMilliseconds, DateTimeMicroseconds, DateTimeNanoseconds:
		x, ok := v.(uint64)
		verifAssert(verifAll(ok, x == rd64(buf, o)), "dateTime milli/micro/nano")
	default: // octetArray, unknown
		x, ok := v.([]byte)
		verifAssert(ok, "octetArray: Go type")
		verifBytesAre(x, buf, o, l, "octetArray")
	}
}

// VerifIPFIXRecord: one data record, template of ns scope fields and nf option fields
// (ns+nf <= 2), every abstract type x length class per field.
// split s selects the type of the first field (0..20).
func VerifIPFIXRecord() {
	InfoModel = IANAInfoModel{}
	ns := verifParam("ns", 0)
	nf := verifParam("nf", 1)
	var fs []verifField
	for i := 0; i < ns+nf; i++ {
		var t FieldType
		if i == 0 {
			// split over the type of the first field: all 21 values, or (typeset=1) a representative subset
			if verifParam("typeset", 0) == 2 {
				// the two variable-length types (used with values of any announceable length)
				t = [2]FieldType{String, OctetArray}[verifSplit(2)]
			} else if verifParam("typeset", 0) == 1 {
				sub := [6]FieldType{Boolean, Uint16, Float32, String, Ipv6Address, OctetArray}
				t = sub[verifSplit(6)]
			} else {
				t = FieldType(verifSplit(21))
			}
		} else {
			t = FieldType(verifCase(21))
		}
		fs = append(fs, verifArbField(t, verifCase(4)))
	}
	var tr TemplateRecord
	tr.TemplateID = verifNondetU16()
	tr.FieldCount = uint16(ns + nf)
	tr.ScopeFieldCount = uint16(ns)
	for i, f := range fs {
		if i < ns {
			tr.ScopeFieldSpecifiers = append(tr.ScopeFieldSpecifiers, f.spec)
		} else {
			tr.FieldSpecifiers = append(tr.FieldSpecifiers, f.spec)
		}
	}
	n := verifNondetInt()
	verifAssume(verifAll(n >= 0, n <= verifParam("maxbuf", 64)))
	buf := verifNondetBytes(n)
	pos := verifNondetInt()
	verifAssume(verifAll(pos >= 0, pos <= n))
	r := reader.NewReader(buf)
	r.Read(pos)
	d := &Decoder{raddr: net.IP{192, 0, 2, 1}, reader: r}

	fields, err := d.decodeData(tr)

	// reference walk
	o := pos
	starts := make([]int, len(fs))
	lens := make([]int, len(fs))
	fit := true
	for i, f := range fs {
		s, l, ok := verifFieldExtent(buf, n, o, f)
		if !ok {
			fit = false
			break
		}
		starts[i], lens[i] = s, l
		o = s + l
	}
	if !fit {
		verifAssert(err != nil, "a record that does not fit in the remaining octets is not decoded")
		verifReach("short")
		return
	}
	if o == pos { // zero octets: not a record (see C02)
		verifAssert(err != nil, "a record of zero octets is rejected")
		verifReach("empty")
		return
	}
	verifAssert(err == nil, "a record that fits is decoded")
	verifAssert(len(fields) == len(fs), "one entry per template field")
	for i, f := range fs { // template order, scope fields first
		verifAssert(fields[i].ID == f.entry.FieldID, "element id")
		verifAssert(fields[i].EnterpriseNo == f.spec.EnterpriseNo, "enterprise number")
		verifCheckValue(fields[i].Value, buf, starts[i], lens[i], f.t)
	}
	verifAssert(r.ReadCount() == o, "the record consumes exactly its octets")
	verifReach("end")
}

// reference parse of one field specifier at offset o: E-bit rule of RFC 7011 3.2
func verifRefSpec(buf []byte, n, o int) (spec TemplateFieldSpecifier, next int, ok bool) {
	if o+4 > n {
		return spec, 0, false
	}
	w := rd16(buf, o)
	spec.Length = rd16(buf, o+2)
	if w&0x8000 != 0 {
		if o+8 > n {
			return spec, 0, false
		}
		spec.ElementID = w & 0x7fff
		spec.EnterpriseNo = rd32(buf, o+4)
		return spec, o + 8, true
	}
	spec.ElementID = w
	return spec, o + 4, true
}

// VerifIPFIXTemplate: template record (set id 2) and options template record (set id 3)
// from an arbitrary reader position; field counts up to maxf.
func VerifIPFIXTemplate() {
	opts := verifCase(2) == 1
	maxf := verifParam("maxf", 3)
	n := verifNondetInt()
	verifAssume(verifAll(n >= 0, n < 1<<20))
	buf := verifNondetBytes(n)
	pos := verifNondetInt()
	verifAssume(verifAll(pos >= 0, pos <= n))
	r := reader.NewReader(buf)
	r.Read(pos)
	hdr := 4
	if opts {
		hdr = 6
	}
	// bound: field count on the wire <= maxf (longer templates: same loop body)
	if n-pos >= 4 {
		verifAssume(int(rd16(buf, pos+2)) <= maxf)
	}
	if opts && n-pos >= 6 {
		// well-formed: scope field count <= field count (otherwise the 16-bit difference wraps
		// and the template is garbage; such input is covered by C01/C02, not by this statement)
		verifAssume(rd16(buf, pos+4) <= rd16(buf, pos+2))
	}
	var tr TemplateRecord
	var err error
	if opts {
		err = tr.unmarshalOpts(r)
	} else {
		err = tr.unmarshal(r)
	}
	if n-pos < hdr {
		verifAssert(err != nil, "truncated template header is rejected")
		verifReach("end")
		return
	}
	tid, fc := rd16(buf, pos), int(rd16(buf, pos+2))
	sc := 0
	if opts {
		sc = int(rd16(buf, pos+4))
		if sc > fc {
			verifReach("end") // scope count above field count: not a well-formed template (outside the statement)
			return
		}
	}
	o := pos + hdr
	var specs []TemplateFieldSpecifier
	fit := true
	for i := 0; i < fc; i++ {
		s, nx, ok := verifRefSpec(buf, n, o)
		if !ok {
			fit = false
			break
		}
		specs = append(specs, s)
		o = nx
	}
	if !fit {
		verifAssert(err != nil, "truncated template is rejected")
		verifReach("end")
		return
	}
	verifAssert(err == nil, "complete template is accepted")
	verifAssert(verifAll(tr.TemplateID == tid, int(tr.FieldCount) == fc, int(tr.ScopeFieldCount) == sc), "template header fields")
	verifAssert(verifAll(len(tr.ScopeFieldSpecifiers) == sc, len(tr.FieldSpecifiers) == fc-sc), "scope/option split")
	for i, s := range specs {
		var got TemplateFieldSpecifier
		if i < sc {
			got = tr.ScopeFieldSpecifiers[i]
		} else {
			got = tr.FieldSpecifiers[i-sc]
		}
		verifAssert(got.ElementID == s.ElementID, "specifier: element id (enterprise bit removed)")
		verifAssert(got.Length == s.Length, "specifier: field length")
		verifAssert(got.EnterpriseNo == s.EnterpriseNo, "specifier: enterprise number")
	}
	verifAssert(r.ReadCount() == o, "the template record consumes exactly its octets")
	verifReach("end")
}
