//go:build verif

package ipfix

import (
	"bytes"
	"encoding/hex"
	"math"
	"net"
	"strconv"
)

// C05 — every published message is valid JSON that faithfully carries the decode.
// The real JSONMarshal runs on a message whose values come from the real Interpret on
// symbolic octets; its output is a rope that the executor's JSON grammar checks (leaf
// obligations decided by the solver) and whose tree is compared with the message.

func verifExpectValue(h int, path string, v interface{}) {
	switch x := v.(type) {
	case []byte:
		verifAssert(verifJSONStr(h, path, "0x"+hex.EncodeToString(x)), "octets are published as 0x-prefixed hex text")
	case bool:
		verifAssert(verifJSONBool(h, path, x), "boolean is published as true/false")
	case uint8:
		verifAssert(verifJSONNum(h, path, uint64(x), false), "unsigned8 is published exactly")
	case uint16:
		verifAssert(verifJSONNum(h, path, uint64(x), false), "unsigned16 is published exactly")
	case uint32:
		verifAssert(verifJSONNum(h, path, uint64(x), false), "unsigned32 is published exactly")
	case uint64:
		verifAssert(verifJSONNum(h, path, x, false), "unsigned64 is published exactly")
	case int8:
		verifAssert(verifJSONNum(h, path, uint64(int64(x)), true), "signed8 is published exactly")
	case int16:
		verifAssert(verifJSONNum(h, path, uint64(int64(x)), true), "signed16 is published exactly")
	case int32:
		verifAssert(verifJSONNum(h, path, uint64(int64(x)), true), "signed32 is published exactly")
	case int64:
		verifAssert(verifJSONNum(h, path, uint64(x), true), "signed64 is published exactly")
	case float32:
		bits := math.Float32bits(x)
		if bits&0x7f800000 != 0x7f800000 {
			verifAssert(verifJSONFloat(h, path, uint64(bits), 32), "finite float32 is published as a number that round-trips")
		} else {
			verifAssert(verifJSONStr(h, path, strconv.FormatFloat(float64(x), 'E', -1, 32)), "non-finite float32 is published as text")
		}
	case float64:
		bits := math.Float64bits(x)
		if bits&0x7ff0000000000000 != 0x7ff0000000000000 {
			verifAssert(verifJSONFloat(h, path, bits, 64), "finite float64 is published as a number that round-trips")
		} else {
			verifAssert(verifJSONStr(h, path, strconv.FormatFloat(x, 'E', -1, 64)), "non-finite float64 is published as text")
		}
	case string:
		verifAssert(verifJSONStr(h, path, x), "text is published as a correctly escaped string")
	case net.IP:
		verifAssert(verifJSONStr(h, path, x.String()), "address is published in its canonical text form")
	case net.HardwareAddr:
		verifAssert(verifJSONStr(h, path, x.String()), "MAC address is published in its canonical text form")
	default:
		verifAssert(false, "unexpected Go type produced by Interpret")
	}
}

func verifArbValue(t FieldType, short bool) interface{} {
	sz := verifTypeSize(t)
	n := verifNondetInt()
	if short {
		verifAssume(verifAll(sz > 1, n >= 1, n < sz))
	} else if sz > 0 {
		verifAssume(n == sz)
	} else {
		verifAssume(verifAll(n >= 0, n <= verifParam("maxstr", 4)))
	}
	b := verifNondetBytes(n)
	return Interpret(&b, t)
}

// message shape: DataSets = [[F1, F2], [F3], [F4]] (first / middle / last positions of the comma logic); F1 of every abstract type (split) in exact
// and short encoding, F2 an unsigned32 with an enterprise number, F3 of a second type.
func VerifIPFIXJSON() {
	t1 := FieldType(verifSplit(21))
	short := verifCase(2) == 1
	t3 := [4]FieldType{String, Boolean, Float64, Ipv6Address}[verifCase(4)]
	f1 := DecodedField{ID: verifNondetU16(), Value: verifArbValue(t1, short), EnterpriseNo: verifNondetU32()}
	f2 := DecodedField{ID: verifNondetU16(), Value: verifArbValue(Uint32, false), EnterpriseNo: verifNondetU32()}
	f3 := DecodedField{ID: verifNondetU16(), Value: verifArbValue(t3, false)}
	f4 := DecodedField{ID: verifNondetU16(), Value: verifArbValue(Uint64, false)}
	addr := verifAddr()
	m := &Message{AgentID: addr.String(), DataSets: [][]DecodedField{{f1, f2}, {f3}, {f4}}}
	m.Header = MessageHeader{Version: 10, Length: verifNondetU16(), ExportTime: verifNondetU32(), SequenceNo: verifNondetU32(), DomainID: verifNondetU32()}
	out, err := m.JSONMarshal(new(bytes.Buffer))
	if err != nil {
		verifReach("end") // nothing is published for this message
		return
	}
	h := verifJSONParse(out)
	verifAssert(verifJSONValid(h), "the published payload is one syntactically valid JSON document")
	verifAssert(verifJSONStr(h, "AgentID", addr.String()), "exporter address")
	verifAssert(verifAll(verifJSONNum(h, "Header.Version", 10, true), verifJSONNum(h, "Header.Length", uint64(m.Header.Length), true),
		verifJSONNum(h, "Header.ExportTime", uint64(m.Header.ExportTime), true), verifJSONNum(h, "Header.SequenceNo", uint64(m.Header.SequenceNo), true),
		verifJSONNum(h, "Header.DomainID", uint64(m.Header.DomainID), true)), "header fields")
	verifAssert(verifAll(verifJSONLen(h, "DataSets") == 3, verifJSONLen(h, "DataSets[0]") == 2, verifJSONLen(h, "DataSets[1]") == 1, verifJSONLen(h, "DataSets[2]") == 1), "one entry per record, one object per field")
	fs := [4]DecodedField{f1, f2, f3, f4}
	ps := [4]string{"DataSets[0][0]", "DataSets[0][1]", "DataSets[1][0]", "DataSets[2][0]"}
	for i := 0; i < 4; i++ {
		verifAssert(verifJSONNum(h, ps[i]+".I", uint64(fs[i].ID), true), "element id")
		if fs[i].EnterpriseNo != 0 {
			verifAssert(verifJSONNum(h, ps[i]+".E", uint64(fs[i].EnterpriseNo), true), "enterprise number when non-zero")
		} else {
			verifAssert(!verifJSONHas(h, ps[i]+".E"), "no enterprise number when zero")
		}
		verifExpectValue(h, ps[i]+".V", fs[i].Value)
	}
	verifReach("end")
}
