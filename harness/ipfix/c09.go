//go:build verif

package ipfix

import "net"

// C09 — an undecodable set never corrupts its neighbours; truncation never fabricates.
// Relational harnesses on the real Decode with the real cache: the template of c03_msg.go
// (unsigned32, variable-length string) is announced by an earlier datagram.

func verifSameFields(a, b []DecodedField) bool {
	if len(a) != len(b) {
		return false
	}
	eq := true
	for i := range a {
		eq = verifAll(eq, a[i].ID == b[i].ID, a[i].EnterpriseNo == b[i].EnterpriseNo)
		switch x := a[i].Value.(type) {
		case uint32:
			y, ok := b[i].Value.(uint32)
			eq = verifAll(eq, ok, x == y)
		case string:
			y, ok := b[i].Value.(string)
			eq = verifAll(eq, ok, verifStrEq(x, y))
		default:
			return false
		}
	}
	return eq
}

func verifAnnounce(m MemCache, a net.IP, t verifTpl) {
	total := 16 + t.tplSetLen()
	w := &verifW{b: make([]byte, total)}
	verifWriteHeader(w, total)
	t.writeTplSet(w, 0)
	msg, err := NewDecoder(a, w.b).Decode(m)
	verifAssume(verifAll(err == nil, msg != nil))
}

func verifDataSet(w *verifW, t verifTpl, r verifRec) {
	w.u16(t.tid)
	w.u16(uint16(4 + r.len()))
	r.write(w)
}

// an undecodable set: kind 0 reserved id 4..255, kind 1 a template id nobody announced;
// body of blen arbitrary octets
func verifBadSet(w *verifW, kind int, t verifTpl, blen int) {
	id := verifNondetU16()
	if kind == 0 {
		verifAssume(verifAll(id >= 4, id <= 255))
	} else {
		verifAssume(verifAll(id > 255, id != t.tid, id != t.decoy))
	}
	w.u16(id)
	w.u16(uint16(4 + blen))
	body := verifNondetBytes(blen)
	for i := 0; i < blen; i++ {
		w.u8(body[i])
	}
}

func verifSetup() (m MemCache, a net.IP, t verifTpl) {
	t = verifMsgTemplate()
	// the exporter address plays no role in this property: a concrete one keeps the cache's
	// hash a function of the (symbolic) template ids only
	a = net.IP{192, 0, 2, 1}
	// two shards instead of 32: the sharding arithmetic itself is C04's subject; here it only
	// multiplies paths (every lookup of a symbolic id forks over the shards)
	shardNo = 2
	m = verifNewCache()
	verifAssume(int(verifFNV4(a, t.tid)%2) == verifSplit(2))
	verifAnnounce(m, a, t)
	return
}

// 1. insertion: the records of all other sets are emitted exactly as if the bad set were absent.
func VerifIPFIXInsertSet() {
	m, a, t := verifSetup()
	r1, r2 := verifArbRec(), verifArbRec()
	// original: header | data(r1) | data(r2)
	tot := 16 + 4 + r1.len() + 4 + r2.len()
	w := &verifW{b: make([]byte, tot)}
	verifWriteHeader(w, tot)
	verifDataSet(w, t, r1)
	verifDataSet(w, t, r2)
	ref, _ := NewDecoder(a, w.b).Decode(m)
	verifAssume(ref != nil)
	verifAssert(len(ref.DataSets) == 2, "the unperturbed message yields its two records")
	// perturbed: bad set at position p
	p := verifCase(3)
	kind := verifCase(2)
	// body lengths around the decoders' "more than 4 octets left" rule, and one long enough
	// to hold something that looks like a set of its own
	blen := [6]int{0, 1, 4, 5, 8, 12}[verifCase(verifParam("bodies", 5))]
	tot2 := tot + 4 + blen
	w2 := &verifW{b: make([]byte, tot2)}
	verifWriteHeader(w2, tot2)
	if p == 0 {
		verifBadSet(w2, kind, t, blen)
	}
	verifDataSet(w2, t, r1)
	if p == 1 {
		verifBadSet(w2, kind, t, blen)
	}
	verifDataSet(w2, t, r2)
	if p == 2 {
		verifBadSet(w2, kind, t, blen)
	}
	if kind == 1 {
		// the cache is keyed by a 32-bit hash only: exclude ids that alias the announced template
		badID := uint16(w2.b[verifBadOff(p, r1, r2)])<<8 | uint16(w2.b[verifBadOff(p, r1, r2)+1])
		hb, ht := verifFNV4(a, badID), verifFNV4(a, t.tid)
		if verifKnown("C04-hash-collision") {
			verifAssume(verifAll(hb != ht, hb != verifFNV4(a, t.decoy)))
		}
	}
	got, _ := NewDecoder(a, w2.b).Decode(m)
	verifAssert(got != nil, "a message with an undecodable set is still decoded")
	verifAssert(len(got.DataSets) == 2, "the records of the other sets are all emitted, and nothing else")
	verifAssert(verifSameFields(got.DataSets[0], ref.DataSets[0]), "first record unchanged")
	verifAssert(verifSameFields(got.DataSets[1], ref.DataSets[1]), "second record unchanged")
	verifReach("end")
}

// FNV-1 (32 bit) of a 4-octet address followed by the big-endian id, as the cache computes it
// (written out here so that constraining it does not go through the cache's slice indexing)
func verifFNV4(a net.IP, id uint16) uint32 {
	h := uint32(2166136261)
	for i := 0; i < 4; i++ {
		h = (h * 16777619) ^ uint32(verifAt(a, i))
	}
	h = (h * 16777619) ^ uint32(id>>8)
	h = (h * 16777619) ^ uint32(id&0xff)
	return h
}

func verifBadOff(p int, r1, r2 verifRec) int {
	switch p {
	case 0:
		return 16
	case 1:
		return 16 + 4 + r1.len()
	}
	return 16 + 4 + r1.len() + 4 + r2.len()
}

// 2. truncation: whatever a cut-short datagram yields is a prefix of what the whole one yields.
// Two templates are in force: the small one of c03_msg.go and a second one with a single
// 16-octet octetArray field, so that the octets of a cut-off record are long enough to be
// mistaken for a set of the small template if the decoder were to re-parse them.
func VerifIPFIXTruncate() {
	m, a, t := verifSetup()
	// second template: one octetArray field of 16 octets
	big := verifField{t: OctetArray}
	big.spec = TemplateFieldSpecifier{ElementID: verifNondetU16(), Length: 16}
	verifAssume(big.spec.ElementID < 0x8000)
	big.entry = InfoElementEntry{FieldID: verifNondetU16(), Name: "verif", Type: OctetArray}
	_, dup := InfoModel[ElementKey{0, big.spec.ElementID}]
	verifAssume(!dup)
	InfoModel[ElementKey{0, big.spec.ElementID}] = big.entry
	bid := verifNondetU16()
	verifAssume(verifAll(bid > 255, bid != t.tid, bid != t.decoy))
	hb, ht := verifFNV4(a, bid), verifFNV4(a, t.tid)
	if verifKnown("C04-hash-collision") {
		verifAssume(verifAll(hb != ht, hb != verifFNV4(a, t.decoy), ht != verifFNV4(a, t.decoy)))
	}
	wt := &verifW{b: make([]byte, 16+12)}
	verifWriteHeader(wt, 28)
	wt.u16(2)
	wt.u16(12)
	wt.u16(bid)
	wt.u16(1)
	wt.u16(big.spec.ElementID)
	wt.u16(16)
	mt, et := NewDecoder(a, wt.b).Decode(m)
	verifAssume(verifAll(et == nil, mt != nil))

	// the datagram: header | data set of the big template with one record | data set of the small one
	r1 := verifArbRec()
	rec := verifNondetBytes(16)
	tot := 16 + 4 + 16 + 4 + r1.len()
	w := &verifW{b: make([]byte, tot)}
	verifWriteHeader(w, tot)
	w.u16(bid)
	w.u16(20)
	for i := 0; i < 16; i++ {
		w.u8(rec[i])
	}
	verifDataSet(w, t, r1)
	full, _ := NewDecoder(a, w.b).Decode(m)
	verifAssume(full != nil)
	verifAssert(len(full.DataSets) == 2, "the complete datagram yields its two records")
	k := verifNondetInt()
	verifAssume(verifAll(k >= 0, k <= tot))
	cut, _ := NewDecoder(a, w.b[:k]).Decode(m)
	if cut != nil {
		verifAssert(len(cut.DataSets) <= len(full.DataSets), "truncation never yields more records")
		for i := range cut.DataSets {
			if i < len(full.DataSets) {
				verifAssert(verifSameFieldsAny(cut.DataSets[i], full.DataSets[i]), "records of the truncated datagram are a prefix of the complete one's")
			}
		}
	}
	verifReach("end")
}

func verifSameFieldsAny(a, b []DecodedField) bool {
	if len(a) != len(b) {
		return false
	}
	if len(a) == 1 {
		x, ok1 := a[0].Value.([]byte)
		y, ok2 := b[0].Value.([]byte)
		if ok1 != ok2 {
			return false
		}
		if ok1 {
			return verifAll(a[0].ID == b[0].ID, verifBytesEq(x, y))
		}
	}
	return verifSameFields(a, b)
}

// 1b. a set that is undecodable because its (announced) template names an element the
// information model does not have — as an ordinary field in first or second position, or as the
// scope field of an options template. Such a set is skipped as a whole; the records of the other
// sets are emitted exactly as if it were absent.
func VerifIPFIXUnknownElementSet() {
	m, a, t := verifSetup()
	// the broken template
	bid := verifNondetU16()
	verifAssume(verifAll(bid > 255, bid != t.tid, bid != t.decoy))
	if verifKnown("C04-hash-collision") {
		verifAssume(verifAll(verifFNV4(a, bid) != verifFNV4(a, t.tid), verifFNV4(a, bid) != verifFNV4(a, t.decoy)))
	}
	unk := verifNondetU16()
	verifAssume(unk < 0x8000)
	_, have := InfoModel[ElementKey{0, unk}]
	verifAssume(!have)
	shape := verifCase(3)
	{
		tl := 4 + 4 + 8
		if shape == 2 {
			tl = 4 + 6 + 8
		}
		w := &verifW{b: make([]byte, 16+tl)}
		verifWriteHeader(w, 16+tl)
		known := t.f1.spec.ElementID
		switch shape {
		case 0: // plain: unknown element first
			w.u16(2)
			w.u16(uint16(tl))
			w.u16(bid)
			w.u16(2)
			w.u16(unk)
			w.u16(4)
			w.u16(known)
			w.u16(4)
		case 1: // plain: unknown element second
			w.u16(2)
			w.u16(uint16(tl))
			w.u16(bid)
			w.u16(2)
			w.u16(known)
			w.u16(4)
			w.u16(unk)
			w.u16(4)
		default: // options template: the scope field is the unknown element
			w.u16(3)
			w.u16(uint16(tl))
			w.u16(bid)
			w.u16(2)
			w.u16(1)
			w.u16(unk)
			w.u16(4)
			w.u16(known)
			w.u16(4)
		}
		verifAssume(!t.ent1) // the known element is referenced without an enterprise number
		msg, err := NewDecoder(a, w.b).Decode(m)
		verifAssume(verifAll(err == nil, msg != nil))
	}
	r1, r2 := verifArbRec(), verifArbRec()
	tot := 16 + 4 + r1.len() + 4 + r2.len()
	w := &verifW{b: make([]byte, tot)}
	verifWriteHeader(w, tot)
	verifDataSet(w, t, r1)
	verifDataSet(w, t, r2)
	ref, _ := NewDecoder(a, w.b).Decode(m)
	verifAssume(ref != nil)
	verifAssert(len(ref.DataSets) == 2, "the unperturbed message yields its two records")
	p := verifCase(3)
	blen := [3]int{8, 16, 12}[verifCase(3)]
	body := verifNondetBytes(blen)
	bad := func(w *verifW) {
		w.u16(bid)
		w.u16(uint16(4 + blen))
		for i := 0; i < blen; i++ {
			w.u8(body[i])
		}
	}
	tot2 := tot + 4 + blen
	w2 := &verifW{b: make([]byte, tot2)}
	verifWriteHeader(w2, tot2)
	if p == 0 {
		bad(w2)
	}
	verifDataSet(w2, t, r1)
	if p == 1 {
		bad(w2)
	}
	verifDataSet(w2, t, r2)
	if p == 2 {
		bad(w2)
	}
	got, _ := NewDecoder(a, w2.b).Decode(m)
	verifAssert(got != nil, "a message with an undecodable set is still decoded")
	verifAssert(len(got.DataSets) == 2, "the records of the other sets are all emitted, and nothing else (no record is made up from a set whose template names an unknown element)")
	verifAssert(verifSameFields(got.DataSets[0], ref.DataSets[0]), "first record unchanged")
	verifAssert(verifSameFields(got.DataSets[1], ref.DataSets[1]), "second record unchanged")
	verifReach("end")
}
