//go:build verif

package ipfix

import "bytes"

// C01 layer 1: Interpret for every abstract data type (and the out-of-range type 21)
// on a field of any length, followed by the JSON encoding of the value it produced:
// no panic site reachable.
func VerifIPFIXInterpretMarshal() {
	t := FieldType(verifCase(22))
	n := verifNondetInt()
	verifAssume(verifAll(n >= 0, n <= 65535))
	b := verifNondetBytes(n)
	v := Interpret(&b, t)
	m := &Message{AgentID: "192.0.2.1", DataSets: [][]DecodedField{{{ID: verifNondetU16(), Value: v, EnterpriseNo: verifNondetU32()}}}}
	m.JSONMarshal(new(bytes.Buffer))
	verifReach("end")
}
