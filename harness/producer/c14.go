//go:build verif

package producer

import (
	"io"
	"log"
	"net"
	"time"
)

// C14 — the raw-socket producer delivers every message once, unmodified, in order.
// The real (*RawSocket).inputMsg runs against a fake net.Conn whose Write either accepts
// all octets or fails with "broken pipe" / "connection reset by peer" (chosen by the
// solver); net.Dial is replaced: it returns a new fake connection or an error.
//
//verif:replace net.Dial verifDial

type verifErr struct{ msg string }

func (e verifErr) Error() string { return e.msg }

type verifAttempt struct {
	conn int
	ok   bool
	pipe bool // failed with "broken pipe"
	data []byte
}

var (
	verifAttempts []verifAttempt
	verifDials    []bool // outcome of each redial
	verifNextConn int
)

type verifConn struct{ id int }

func (c *verifConn) Write(b []byte) (int, error) {
	a := verifAttempt{conn: c.id, data: append([]byte(nil), b...)}
	switch verifCase(3) {
	case 0:
		a.ok = true
		verifAttempts = append(verifAttempts, a)
		return len(b), nil
	case 1:
		a.pipe = true
		verifAttempts = append(verifAttempts, a)
		return 0, verifErr{"write tcp 127.0.0.1:1->127.0.0.1:2: write: broken pipe"}
	}
	verifAttempts = append(verifAttempts, a)
	return 0, verifErr{"write tcp 127.0.0.1:1->127.0.0.1:2: write: connection reset by peer"}
}
func (c *verifConn) Read(b []byte) (int, error)         { return 0, verifErr{"not used"} }
func (c *verifConn) Close() error                       { return nil }
func (c *verifConn) LocalAddr() net.Addr                { return nil }
func (c *verifConn) RemoteAddr() net.Addr               { return nil }
func (c *verifConn) SetDeadline(t time.Time) error      { return nil }
func (c *verifConn) SetReadDeadline(t time.Time) error  { return nil }
func (c *verifConn) SetWriteDeadline(t time.Time) error { return nil }

func verifDial(network, address string) (net.Conn, error) {
	if verifCase(2) == 0 {
		verifDials = append(verifDials, false)
		return nil, verifErr{"dial tcp: connection refused"}
	}
	verifDials = append(verifDials, true)
	verifNextConn++
	return &verifConn{id: verifNextConn}, nil
}

func VerifRawSocketDelivery() {
	k := verifParam("msgs", 2)
	mlen := verifParam("msglen", 2)
	retry := verifCase(verifParam("maxretry", 1) + 1)
	verifAttempts, verifDials, verifNextConn = nil, nil, 0
	rs := &RawSocket{connection: &verifConn{id: 0}, config: RawSocketConfig{URL: "sink:9555", Protocol: "tcp", MaxRetry: retry}, logger: log.New(io.Discard, "", 0)}
	ch := make(chan []byte, k)
	var msgs [][]byte
	for i := 0; i < k; i++ {
		m := verifNondetBytes(mlen)
		msgs = append(msgs, append([]byte(nil), m...)) // reference copy
		ch <- m
	}
	close(ch)
	var ec uint64
	rs.inputMsg("topic", ch, &ec)

	// reference: walk the attempts the sink saw
	ai, di := 0, 0
	conn := 0
	failed := uint64(0)
	for j := 0; j < k; j++ {
		tries := 0
		for {
			verifAssert(ai < len(verifAttempts), "every message is attempted until it is delivered or its retries are used up")
			a := verifAttempts[ai]
			ai++
			tries++
			verifAssert(a.conn == conn, "writes go to the current connection (the new one after a successful reconnect)")
			verifAssert(len(a.data) == mlen+1, "message is written with exactly one terminating newline")
			verifAssert(verifAt(a.data, mlen) == '\n', "message is newline-terminated")
			i := verifNondetInt()
			verifAssume(verifAll(i >= 0, i < mlen))
			verifAssert(verifAt(a.data, i) == verifAt(msgs[j], i), "message octets are delivered unmodified, in hand-over order")
			if a.ok {
				break
			}
			failed++
			if a.pipe {
				verifAssert(di < len(verifDials), "a broken pipe is followed by a reconnect attempt")
				if verifDials[di] {
					conn++
				}
				di++
			}
			if tries > retry {
				break // dropped after retry-max+1 failed attempts: the bounded gap the statement allows
			}
		}
	}
	verifAssert(ai == len(verifAttempts), "nothing is written twice or after the last message")
	verifAssert(di == len(verifDials), "reconnects happen only after a broken pipe")
	verifAssert(ec == failed, "the error counter counts failed attempts")
	verifReach("end")
}

// C14, configurations: the collector starts one producer per protocol, all with the same
// back-end name. Each must own its driver state: a message handed to the first producer goes to
// the first producer's sink whatever the second producer has been configured with since.
func VerifProducerOwnDriver() {
	verifAttempts, verifDials, verifNextConn = nil, nil, 0
	p1 := NewProducer("rawSocket")
	p2 := NewProducer("rawSocket")
	r1, ok1 := p1.MQ.(*RawSocket)
	r2, ok2 := p2.MQ.(*RawSocket)
	verifAssert(verifAll(ok1, ok2), "NewProducer(\"rawSocket\") yields the raw-socket driver")
	// what setup() establishes, for two differently configured sinks (first producer first)
	r1.config = RawSocketConfig{URL: "sink-a:9555", Protocol: "tcp", MaxRetry: 0}
	r1.connection = &verifConn{id: 1}
	r1.logger = log.New(io.Discard, "", 0)
	r2.config = RawSocketConfig{URL: "sink-b:9555", Protocol: "tcp", MaxRetry: 0}
	r2.connection = &verifConn{id: 2}
	r2.logger = log.New(io.Discard, "", 0)
	m := verifNondetBytes(2)
	p1.Chan = make(chan []byte, 1)
	p1.Chan <- m
	close(p1.Chan)
	var ec uint64
	p1.MQ.inputMsg("topic", p1.Chan, &ec)
	verifAssert(len(verifAttempts) >= 1, "the message is attempted")
	verifAssert(verifAttempts[0].conn == 1, "a message handed to the first producer is written to the first producer's sink")
	verifReach("end")
}
