//go:build verif

package main

import (
	"errors"
	"net"
	"time"

	"github.com/EdgeCast/vflow/ipfix"
	"github.com/EdgeCast/vflow/mirror"
	"github.com/EdgeCast/vflow/netflow/v9"
)

// C13 (receive side) and C11 (file-name pairing): the real run() and shutdown() methods are
// executed with the network replaced: ListenUDP succeeds, ReadFromUDP returns for R rounds
// either a datagram (n octets from some address) or an error, as the solver chooses, and
// then raises the stop flag. go statements are not started (workers, producer, RPC).
//
//verif:replace net.ResolveUDPAddr verifResolveUDPAddr
//verif:replace net.ListenUDP verifListenUDP
//verif:replace (*net.UDPConn).SetReadDeadline verifSetReadDeadline
//verif:replace (*net.UDPConn).ReadFromUDP verifReadFromUDP
//verif:replace github.com/EdgeCast/vflow/ipfix.LoadExtElements verifLoadExt
//verif:replace github.com/EdgeCast/vflow/ipfix.GetCache verifGetCacheIPFIX
//verif:replace github.com/EdgeCast/vflow/netflow/v9.GetCache verifGetCacheV9
//verif:replace (github.com/EdgeCast/vflow/ipfix.MemCache).Dump verifDumpIPFIX
//verif:replace (github.com/EdgeCast/vflow/netflow/v9.MemCache).Dump verifDumpV9
//verif:replace github.com/EdgeCast/vflow/mirror.NewRawConn verifNewRawConn
//verif:replace (*github.com/EdgeCast/vflow/mirror.Conn).Send verifSend

type verifRead struct {
	ok   bool
	n    int
	addr *net.UDPAddr
	buf  []byte
}

var (
	verifReads      []verifRead
	verifRounds     int
	verifStop       func()
	verifLoadedFrom []string
	verifDumpedTo   []string
	errVerifRead    = errors.New("verif: read deadline exceeded")
)

func verifResolveUDPAddr(network, address string) (*net.UDPAddr, error) {
	return &net.UDPAddr{}, nil
}
func verifListenUDP(network string, laddr *net.UDPAddr) (*net.UDPConn, error) {
	return &net.UDPConn{}, nil
}
func verifSetReadDeadline(c *net.UDPConn, t time.Time) error { return nil }

func verifReadFromUDP(c *net.UDPConn, b []byte) (int, *net.UDPAddr, error) {
	if len(verifReads)+1 >= verifRounds {
		verifStop()
	}
	if verifCase(2) == 0 {
		verifReads = append(verifReads, verifRead{ok: false})
		return 0, nil, errVerifRead
	}
	// the kernel truncates a datagram to the buffer it is given: a datagram of up to
	// max-udp-size octets arrives whole only in a buffer of at least that length
	verifAssert(len(b) >= verifPoolSize, "buffer cycle: the receive loop reads into a buffer of the full max-udp-size (a shorter one, handed back to the pool by a worker or a mirror sender, truncates the next datagram)")
	n := verifNondetInt()
	verifAssume(verifAll(n >= 0, n <= len(b)))
	a := &net.UDPAddr{IP: net.IP{192, 0, 2, byte(len(verifReads))}, Port: 4739}
	verifReads = append(verifReads, verifRead{ok: true, n: n, addr: a, buf: b})
	return n, a, nil
}

func verifLoadExt(cfgPath string) error { return nil }

func verifGetCacheIPFIX(file string) ipfix.MemCache {
	verifLoadedFrom = append(verifLoadedFrom, "ipfix:"+file)
	return nil
}
func verifGetCacheV9(file string) netflow9.MemCache {
	verifLoadedFrom = append(verifLoadedFrom, "v9:"+file)
	return nil
}
func verifDumpIPFIX(m ipfix.MemCache, file string) error {
	verifDumpedTo = append(verifDumpedTo, "ipfix:"+file)
	return nil
}
func verifDumpV9(m netflow9.MemCache, file string) error {
	verifDumpedTo = append(verifDumpedTo, "v9:"+file)
	return nil
}

func verifRunSetup() {
	verifReads = nil
	verifRounds = verifParam("rounds", 3)
	verifLoadedFrom, verifDumpedTo = nil, nil
	verifMirrorSent = 0
	verifPoolSize = 32
	verifPoolBufs = nil
	opts = NewOptions()
	opts.IPFIXUDPSize, opts.SFlowUDPSize, opts.NetflowV5UDPSize, opts.NetflowV9UDPSize = 32, 32, 32, 32
	opts.IPFIXTplCacheFile = "/tmp/ipfix.cache"
	opts.NetflowV9TplCacheFile = "/tmp/v9.cache"
	opts.IPFIXWorkers, opts.SFlowWorkers, opts.NetflowV5Workers, opts.NetflowV9Workers = 2, 2, 2, 2
	opts.ProducerEnabled = false
	opts.DynWorkers = false
}

// received counter and hand-off: one count and exactly one hand-off b[:n] per successful read
func verifRunChecks(count uint64, qlen int, next func() (*net.UDPAddr, []byte)) {
	okReads := 0
	for _, r := range verifReads {
		if r.ok {
			okReads++
		}
	}
	verifAssert(len(verifReads) == verifRounds, "the receive loop stops when the stop flag is raised")
	verifAssert(count == uint64(okReads), "C13: each datagram received is counted exactly once, failed reads are not counted")
	verifAssert(qlen == okReads, "C13: each datagram received is handed to the workers exactly once")
	for _, r := range verifReads {
		if !r.ok {
			continue
		}
		a, body := next()
		verifAssert(a == r.addr, "C13: hand-off carries the datagram's source address")
		verifAssert(len(body) == r.n, "C13: hand-off carries exactly the octets received")
		if r.n > 0 {
			verifAssert(&body[0] == &r.buf[0], "C13: hand-off is the buffer that was read into")
		}
	}
	verifReach("end")
}

func VerifRunLoopIPFIX() {
	verifRunSetup()
	ipfixUDPCh = make(chan IPFIXUDPMsg, 8)
	i := NewIPFIX()
	verifStop = func() { i.stop = true }
	i.run()
	verifAssert(verifAll(len(verifLoadedFrom) == 1, verifLoadedFrom[0] == "ipfix:/tmp/ipfix.cache"), "C11: start-up loads the IPFIX cache from the configured IPFIX cache file")
	verifRunChecks(i.stats.UDPCount, len(ipfixUDPCh), func() (*net.UDPAddr, []byte) { m := <-ipfixUDPCh; return m.raddr, m.body })
}

func VerifRunLoopV9() {
	verifRunSetup()
	netflowV9UDPCh = make(chan NetflowV9UDPMsg, 8)
	i := NewNetflowV9()
	verifStop = func() { i.stop = true }
	i.run()
	verifAssert(verifAll(len(verifLoadedFrom) == 1, verifLoadedFrom[0] == "v9:/tmp/v9.cache"), "C11: start-up loads the NetFlow v9 cache from the configured v9 cache file")
	verifRunChecks(i.stats.UDPCount, len(netflowV9UDPCh), func() (*net.UDPAddr, []byte) { m := <-netflowV9UDPCh; return m.raddr, m.body })
}

func VerifRunLoopV5() {
	verifRunSetup()
	netflowV5UDPCh = make(chan NetflowV5UDPMsg, 8)
	i := NewNetflowV5()
	verifStop = func() { i.stop = true }
	i.run()
	verifRunChecks(i.stats.UDPCount, len(netflowV5UDPCh), func() (*net.UDPAddr, []byte) { m := <-netflowV5UDPCh; return m.raddr, m.body })
}

func VerifRunLoopSFlow() {
	verifRunSetup()
	sFlowUDPCh = make(chan SFUDPMsg, 8)
	s := NewSFlow()
	verifStop = func() { s.stop = true }
	s.run()
	verifRunChecks(s.stats.UDPCount, len(sFlowUDPCh), func() (*net.UDPAddr, []byte) { m := <-sFlowUDPCh; return m.raddr, m.body })
}

// C11 pairing / C15's code-level part: shutdown dumps the templates to the file the same
// protocol loads from at start-up, before the work queue is closed.
func VerifShutdownPairing() {
	verifRunSetup()
	ipfixUDPCh = make(chan IPFIXUDPMsg, 8)
	netflowV9UDPCh = make(chan NetflowV9UDPMsg, 8)
	i := NewIPFIX()
	i.shutdown()
	verifAssert(i.stop, "shutdown raises the stop flag")
	verifAssert(verifAll(len(verifDumpedTo) == 1, verifDumpedTo[0] == "ipfix:/tmp/ipfix.cache"), "C11: IPFIX shutdown dumps the IPFIX cache to the file start-up loads it from")
	_, open := <-ipfixUDPCh
	verifAssert(!open, "shutdown closes the work queue")
	v := NewNetflowV9()
	v.shutdown()
	verifAssert(verifAll(len(verifDumpedTo) == 2, verifDumpedTo[1] == "v9:/tmp/v9.cache"), "C11: v9 shutdown dumps the v9 cache to the file start-up loads it from")
	verifReach("end")
}

// ---- the life of a receive buffer (C16 / C13 / C12) -----------------------------------
// One short datagram goes through the real worker (mirroring on where the protocol has it)
// and the real mirror sender; the buffers they hand back are in the (adversarial) pool when
// the real receive loop then runs: whichever of them it gets, it must be able to take a
// datagram of the full max-udp-size.

var (
	verifMirrorSent int
	errVerifStop    = errors.New("verif: stop after the last datagram")
)

func verifNewRawConn(raddr net.IP) (mirror.Conn, error) { return mirror.Conn{}, nil }

func verifSend(c *mirror.Conn, b []byte) error {
	verifMirrorSent++
	return errVerifStop
}

// a datagram of n <= size octets that is not of the protocol's version (the template caches
// are not set up here): b[:n] of a full-size buffer, as the receive loop hands it over
func verifShortDatagram(size int) []byte {
	n := verifNondetInt()
	verifAssume(verifAll(n >= 0, n <= size))
	b := verifNondetBytesCap(n, size)
	if n >= 2 {
		verifAssume(verifAll(b[0] == 0xff, b[1] == 0xff))
	}
	return b
}

func VerifBufferCycleIPFIX() {
	verifRunSetup()
	ipfixMirrorEnabled = verifCase(2) == 1
	ipfixUDPCh = make(chan IPFIXUDPMsg, 8)
	ipfixMCh = make(chan IPFIXUDPMsg, 2)
	ipfixMQCh = make(chan []byte, 2)
	ipfixUDPCh <- IPFIXUDPMsg{&net.UDPAddr{IP: net.IP{192, 0, 2, 9}}, verifShortDatagram(verifPoolSize)}
	close(ipfixUDPCh)
	i := NewIPFIX()
	i.ipfixWorker(make(chan struct{}))
	if ipfixMirrorEnabled {
		verifAssert(len(ipfixMCh) == 1, "C16: the worker queues a copy of the datagram for mirroring")
		mirrorIPFIX(net.ParseIP("198.51.100.1"), 4739, ipfixMCh)
		verifAssert(verifMirrorSent == 1, "C16: the mirror sender emits the queued datagram")
	}
	ipfixUDPCh = make(chan IPFIXUDPMsg, 8)
	verifStop = func() { i.stop = true }
	i.run()
	verifReach("end")
}

func VerifBufferCycleSFlow() {
	verifRunSetup()
	sFlowMirrorEnabled = verifCase(2) == 1
	sFlowUDPCh = make(chan SFUDPMsg, 8)
	sFlowMCh = make(chan SFUDPMsg, 2)
	sFlowMQCh = make(chan []byte, 2)
	sFlowUDPCh <- SFUDPMsg{&net.UDPAddr{IP: net.IP{192, 0, 2, 9}}, verifShortDatagram(verifPoolSize)}
	close(sFlowUDPCh)
	s := NewSFlow()
	s.sFlowWorker(make(chan struct{}))
	if sFlowMirrorEnabled {
		verifAssert(len(sFlowMCh) == 1, "C16: the worker queues a copy of the datagram for mirroring")
		mirrorSFlow(net.ParseIP("198.51.100.1"), 6343, sFlowMCh)
		verifAssert(verifMirrorSent == 1, "C16: the mirror sender emits the queued datagram")
	}
	sFlowUDPCh = make(chan SFUDPMsg, 8)
	verifStop = func() { s.stop = true }
	s.run()
	verifReach("end")
}

func VerifBufferCycleV9() {
	verifRunSetup()
	netflowV9UDPCh = make(chan NetflowV9UDPMsg, 8)
	netflowV9MQCh = make(chan []byte, 2)
	netflowV9UDPCh <- NetflowV9UDPMsg{&net.UDPAddr{IP: net.IP{192, 0, 2, 9}}, verifShortDatagram(verifPoolSize)}
	close(netflowV9UDPCh)
	i := NewNetflowV9()
	i.netflowV9Worker(make(chan struct{}))
	netflowV9UDPCh = make(chan NetflowV9UDPMsg, 8)
	verifStop = func() { i.stop = true }
	i.run()
	verifReach("end")
}

func VerifBufferCycleV5() {
	verifRunSetup()
	netflowV5UDPCh = make(chan NetflowV5UDPMsg, 8)
	netflowV5MQCh = make(chan []byte, 2)
	netflowV5UDPCh <- NetflowV5UDPMsg{&net.UDPAddr{IP: net.IP{192, 0, 2, 9}}, verifShortDatagram(verifPoolSize)}
	close(netflowV5UDPCh)
	i := NewNetflowV5()
	i.netflowV5Worker(make(chan struct{}))
	netflowV5UDPCh = make(chan NetflowV5UDPMsg, 8)
	verifStop = func() { i.stop = true }
	i.run()
	verifReach("end")
}
