//go:build verif

package netflow9

import "net"

func (m *MemCache) retrieve(id uint16, addr net.IP) (TemplateRecord, bool) {
	return verifStubRetrieve(m, id, addr)
}
func (m *MemCache) insert(id uint16, addr net.IP, tr TemplateRecord) { verifStubInsert(m, id, addr, tr) }
