//go:build verif

package netflow9

import (
	"bytes"
	"net"

	"github.com/EdgeCast/vflow/ipfix"
)

// Whole-datagram harnesses with the template cache over-approximated: retrieve returns
// "unknown" or ANY template record with up to K scope and K option fields (symbolic id,
// length, enterprise number), insert accepts anything. This covers every cache state any
// history of datagrams (or any loaded cache file) can produce, for templates of <= K+K fields.
//
//verif:replace (*github.com/EdgeCast/vflow/netflow/v9.MemCache).retrieve verifStubRetrieve
//verif:replace (*github.com/EdgeCast/vflow/netflow/v9.MemCache).insert verifStubInsert
//verif:replace github.com/EdgeCast/vflow/ipfix.Interpret verifStubInterpret

func verifArbSpec() TemplateFieldSpecifier {
	return TemplateFieldSpecifier{ElementID: verifNondetU16(), Length: verifNondetU16()}
}

func verifArbTemplate() TemplateRecord {
	k := verifParam("K", 2)
	var tr TemplateRecord
	tr.TemplateID = verifNondetU16()
	tr.FieldCount = verifNondetU16()
	ns := verifCase(k + 1)
	nf := verifCase(k + 1)
	for i := 0; i < ns; i++ {
		tr.ScopeFieldSpecifiers = append(tr.ScopeFieldSpecifiers, verifArbSpec())
	}
	for i := 0; i < nf; i++ {
		tr.FieldSpecifiers = append(tr.FieldSpecifiers, verifArbSpec())
	}
	return tr
}

func verifStubRetrieve(m *MemCache, id uint16, addr net.IP) (TemplateRecord, bool) {
	if verifCase(2) == 0 {
		return TemplateRecord{}, false
	}
	return verifArbTemplate(), true
}

func verifStubInsert(m *MemCache, id uint16, addr net.IP, tr TemplateRecord) {}

// Interpret is covered for every type and length by its own unit harness; here the value
// is irrelevant, so the raw octets stand in for it (no 21-way fork per field).
func verifStubInterpret(b *[]byte, t ipfix.FieldType) interface{} { return *b }

// VerifV9DecodeAny: C01 (no panic site reachable in Decode+JSONMarshal) and C02
// (every loop iteration consumes input; records <= octets; no allocation beyond the bound).
// Split s: s == 0 covers every length 0..lo, s >= 1 the single length lo+s.
func VerifV9DecodeAny() {
	lo := verifParam("lo", 28)
	maxLen := verifParam("maxlen", 32)
	s := verifSplit(maxLen - lo + 1)
	n := verifNondetInt()
	if s == 0 {
		verifAssume(verifAll(n >= 0, n <= lo))
	} else {
		verifAssume(n == lo+s)
	}
	buf := verifNondetBytes(n)
	addr := net.IP(verifNondetBytes(4 + 12*verifParam("addr16", 0)))
	d := NewDecoder(addr, buf)
	verifProgress(func() int { return d.reader.ReadCount() }, "Decoder).Decode", "Decoder).decodeSet", "TemplateRecord).unmarshal", "TemplateRecord).unmarshalOpts")
	verifAllocBound(4*n + 2048)
	var mem MemCache
	msg, _ := d.Decode(mem)
	if msg != nil {
		verifAssert(len(msg.DataSets) <= n, "no more records than the datagram has octets")
		msg.JSONMarshal(new(bytes.Buffer))
	}
	verifReach("end")
}
