//go:build verif

package netflow9

import (
	"net"

	"github.com/EdgeCast/vflow/ipfix"
)

// C09 for NetFlow v9 — see harness/ipfix/c09.go.

func verifSameFields(a, b []DecodedField) bool {
	if len(a) != len(b) {
		return false
	}
	eq := true
	for i := range a {
		eq = verifAll(eq, a[i].ID == b[i].ID)
		switch x := a[i].Value.(type) {
		case uint32:
			y, ok := b[i].Value.(uint32)
			eq = verifAll(eq, ok, x == y)
		case string:
			y, ok := b[i].Value.(string)
			eq = verifAll(eq, ok, verifStrEq(x, y))
		default:
			return false
		}
	}
	return eq
}

func verifFNV4(a net.IP, id uint16) uint32 {
	h := uint32(2166136261)
	for i := 0; i < 4; i++ {
		h = (h * 16777619) ^ uint32(verifAt(a, i))
	}
	h = (h * 16777619) ^ uint32(id>>8)
	h = (h * 16777619) ^ uint32(id&0xff)
	return h
}

func verifSetup() (m MemCache, a net.IP, t verifTpl) {
	t = verifMsgTemplate()
	// the exporter address plays no role in this property: a concrete one keeps the cache's
	// hash a function of the (symbolic) template ids only
	a = net.IP{192, 0, 2, 1}
	// two shards instead of 32: the sharding arithmetic itself is C04's subject; here it only
	// multiplies paths (every lookup of a symbolic id forks over the shards)
	shardNo = 2
	m = verifNewCache()
	verifAssume(int(verifFNV4(a, t.tid)%2) == verifSplit(2))
	w := &verifW{b: make([]byte, 20+verifTplSetLen)}
	verifWriteHeader(w)
	t.writeTplSet(w)
	msg, err := NewDecoder(a, w.b).Decode(m)
	verifAssume(verifAll(err == nil, msg != nil))
	return
}

func verifDataSet(w *verifW, t verifTpl, r verifRec) {
	w.u16(t.tid)
	w.u16(uint16(4 + 4 + t.l))
	r.write(w)
}

func verifBadSet(w *verifW, kind int, t verifTpl, blen int) uint16 {
	id := verifNondetU16()
	if kind == 0 {
		verifAssume(verifAll(id >= 4, id <= 255))
	} else {
		verifAssume(verifAll(id > 255, id != t.tid, id != t.decoy))
	}
	w.u16(id)
	w.u16(uint16(4 + blen))
	body := verifNondetBytes(blen)
	for i := 0; i < blen; i++ {
		w.u8(body[i])
	}
	return id
}

func VerifV9InsertSet() {
	m, a, t := verifSetup()
	r1, r2 := verifArbRec(t), verifArbRec(t)
	ds := 4 + 4 + t.l
	tot := 20 + 2*ds
	w := &verifW{b: make([]byte, tot)}
	verifWriteHeader(w)
	verifDataSet(w, t, r1)
	verifDataSet(w, t, r2)
	ref, _ := NewDecoder(a, w.b).Decode(m)
	verifAssume(ref != nil)
	verifAssert(len(ref.DataSets) == 2, "the unperturbed packet yields its two records")
	p := verifCase(3)
	kind := verifCase(2)
	// body lengths around the decoders' "more than 4 octets left" rule, and one long enough
	// to hold something that looks like a set of its own
	blen := [6]int{0, 1, 4, 5, 8, 12}[verifCase(verifParam("bodies", 5))]
	w2 := &verifW{b: make([]byte, tot+4+blen)}
	verifWriteHeader(w2)
	var bad uint16
	if p == 0 {
		bad = verifBadSet(w2, kind, t, blen)
	}
	verifDataSet(w2, t, r1)
	if p == 1 {
		bad = verifBadSet(w2, kind, t, blen)
	}
	verifDataSet(w2, t, r2)
	if p == 2 {
		bad = verifBadSet(w2, kind, t, blen)
	}
	if kind == 1 {
		hb, ht := verifFNV4(a, bad), verifFNV4(a, t.tid)
		if verifKnown("C04-hash-collision") {
			verifAssume(verifAll(hb != ht, hb != verifFNV4(a, t.decoy)))
		}
	}
	got, _ := NewDecoder(a, w2.b).Decode(m)
	verifAssert(got != nil, "a packet with an undecodable flowset is still decoded")
	verifAssert(len(got.DataSets) == 2, "the records of the other flowsets are all emitted, and nothing else")
	verifAssert(verifSameFields(got.DataSets[0], ref.DataSets[0]), "first record unchanged")
	verifAssert(verifSameFields(got.DataSets[1], ref.DataSets[1]), "second record unchanged")
	verifReach("end")
}

// truncation with two templates in force (see harness/ipfix/c09.go)
func VerifV9Truncate() {
	m, a, t := verifSetup()
	big := verifField{t: OctetArray}
	big.spec = TemplateFieldSpecifier{ElementID: verifNondetU16(), Length: 16}
	big.entry = ipfix.InfoElementEntry{FieldID: verifNondetU16(), Name: "verif", Type: OctetArray}
	_, dup := ipfix.InfoModel[ipfix.ElementKey{0, big.spec.ElementID}]
	verifAssume(!dup)
	ipfix.InfoModel[ipfix.ElementKey{0, big.spec.ElementID}] = big.entry
	bid := verifNondetU16()
	verifAssume(verifAll(bid > 255, bid != t.tid, bid != t.decoy))
	hb, ht := verifFNV4(a, bid), verifFNV4(a, t.tid)
	if verifKnown("C04-hash-collision") {
		verifAssume(verifAll(hb != ht, hb != verifFNV4(a, t.decoy), ht != verifFNV4(a, t.decoy)))
	}
	wt := &verifW{b: make([]byte, 20+12)}
	verifWriteHeader(wt)
	wt.u16(0)
	wt.u16(12)
	wt.u16(bid)
	wt.u16(1)
	wt.u16(big.spec.ElementID)
	wt.u16(16)
	mt, et := NewDecoder(a, wt.b).Decode(m)
	verifAssume(verifAll(et == nil, mt != nil))

	r1 := verifArbRec(t)
	rec := verifNondetBytes(16)
	tot := 20 + 4 + 16 + 4 + 4 + t.l
	w := &verifW{b: make([]byte, tot)}
	verifWriteHeader(w)
	w.u16(bid)
	w.u16(20)
	for i := 0; i < 16; i++ {
		w.u8(rec[i])
	}
	verifDataSet(w, t, r1)
	full, _ := NewDecoder(a, w.b).Decode(m)
	verifAssume(full != nil)
	verifAssert(len(full.DataSets) == 2, "the complete packet yields its two records")
	k := verifNondetInt()
	verifAssume(verifAll(k >= 0, k <= tot))
	cut, _ := NewDecoder(a, w.b[:k]).Decode(m)
	if cut != nil {
		verifAssert(len(cut.DataSets) <= len(full.DataSets), "truncation never yields more records")
		for i := range cut.DataSets {
			if i < len(full.DataSets) {
				verifAssert(verifSameFieldsAny(cut.DataSets[i], full.DataSets[i]), "records of the truncated packet are a prefix of the complete one's")
			}
		}
	}
	verifReach("end")
}

func verifSameFieldsAny(a, b []DecodedField) bool {
	if len(a) != len(b) {
		return false
	}
	if len(a) == 1 {
		x, ok1 := a[0].Value.([]byte)
		y, ok2 := b[0].Value.([]byte)
		if ok1 != ok2 {
			return false
		}
		if ok1 {
			return verifAll(a[0].ID == b[0].ID, verifBytesEq(x, y))
		}
	}
	return verifSameFields(a, b)
}

// 1b. a flowset that is undecodable because its (announced) template names an element the
// information model does not have — as an ordinary field in first or second position, or as the
// scope field of an options template. It is skipped as a whole; the records of the other
// flowsets are emitted exactly as if it were absent.
func VerifV9UnknownElementSet() {
	m, a, t := verifSetup()
	bid := verifNondetU16()
	verifAssume(verifAll(bid > 255, bid != t.tid, bid != t.decoy))
	if verifKnown("C04-hash-collision") {
		verifAssume(verifAll(verifFNV4(a, bid) != verifFNV4(a, t.tid), verifFNV4(a, bid) != verifFNV4(a, t.decoy)))
	}
	unk := verifNondetU16()
	_, have := ipfix.InfoModel[ipfix.ElementKey{0, unk}]
	verifAssume(!have)
	shape := verifCase(3)
	{
		tl := 4 + 4 + 8
		if shape == 2 {
			tl = 4 + 6 + 8 + 2
		}
		w := &verifW{b: make([]byte, 20+tl)}
		verifWriteHeader(w)
		known := t.f1.spec.ElementID
		switch shape {
		case 0:
			w.u16(0)
			w.u16(uint16(tl))
			w.u16(bid)
			w.u16(2)
			w.u16(unk)
			w.u16(4)
			w.u16(known)
			w.u16(4)
		case 1:
			w.u16(0)
			w.u16(uint16(tl))
			w.u16(bid)
			w.u16(2)
			w.u16(known)
			w.u16(4)
			w.u16(unk)
			w.u16(4)
		default:
			w.u16(1)
			w.u16(uint16(tl))
			w.u16(bid)
			w.u16(4)
			w.u16(4)
			w.u16(unk)
			w.u16(4)
			w.u16(known)
			w.u16(4)
			w.u16(0)
		}
		msg, err := NewDecoder(a, w.b).Decode(m)
		verifAssume(verifAll(err == nil, msg != nil))
	}
	r1, r2 := verifArbRec(t), verifArbRec(t)
	ds := 4 + 4 + t.l
	tot := 20 + 2*ds
	w := &verifW{b: make([]byte, tot)}
	verifWriteHeader(w)
	verifDataSet(w, t, r1)
	verifDataSet(w, t, r2)
	ref, _ := NewDecoder(a, w.b).Decode(m)
	verifAssume(ref != nil)
	verifAssert(len(ref.DataSets) == 2, "the unperturbed packet yields its two records")
	p := verifCase(3)
	blen := [3]int{8, 16, 12}[verifCase(3)]
	body := verifNondetBytes(blen)
	bad := func(w *verifW) {
		w.u16(bid)
		w.u16(uint16(4 + blen))
		for i := 0; i < blen; i++ {
			w.u8(body[i])
		}
	}
	w2 := &verifW{b: make([]byte, tot+4+blen)}
	verifWriteHeader(w2)
	if p == 0 {
		bad(w2)
	}
	verifDataSet(w2, t, r1)
	if p == 1 {
		bad(w2)
	}
	verifDataSet(w2, t, r2)
	if p == 2 {
		bad(w2)
	}
	got, _ := NewDecoder(a, w2.b).Decode(m)
	verifAssert(got != nil, "a packet with an undecodable flowset is still decoded")
	verifAssert(len(got.DataSets) == 2, "the records of the other flowsets are all emitted, and nothing else (no record is made up from a flowset whose template names an unknown element)")
	verifAssert(verifSameFields(got.DataSets[0], ref.DataSets[0]), "first record unchanged")
	verifAssert(verifSameFields(got.DataSets[1], ref.DataSets[1]), "second record unchanged")
	verifReach("end")
}
