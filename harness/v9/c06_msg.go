//go:build verif

package netflow9

import (
	"net"

	"github.com/EdgeCast/vflow/ipfix"
)

// Whole NetFlow v9 packets through the real Decode, real cache, real Interpret.
// Template: field 1 = unsigned32 (4 octets), field 2 = string of fixed length L in 1..3.

type verifW struct {
	b []byte
	o int
}

func (w *verifW) u8(v uint8)   { w.b[w.o] = v; w.o++ }
func (w *verifW) u16(v uint16) { w.u8(uint8(v >> 8)); w.u8(uint8(v)) }
func (w *verifW) u32(v uint32) { w.u16(uint16(v >> 16)); w.u16(uint16(v)) }

type verifTpl struct {
	fd     verifField // the decoy template's only field: octetArray, 6 octets
	decoy  uint16
	tid    uint16
	f1, f2 verifField
	l      int
}

func verifMsgTemplate() verifTpl {
	ipfix.InfoModel = ipfix.IANAInfoModel{}
	var t verifTpl
	t.tid = verifNondetU16()
	verifAssume(t.tid > 255)
	t.decoy = verifNondetU16()
	verifAssume(verifAll(t.decoy > 255, t.decoy != t.tid))
	t.f1 = verifArbField(Uint32, 0)
	t.f2 = verifArbField(String, 0)
	t.fd = verifArbField(OctetArray, 0)
	verifAssume(t.fd.spec.Length == 6)
	t.l = 1 + verifCase(3)
	verifAssume(int(t.f2.spec.Length) == t.l)
	return t
}

// the template flowset carries TWO template records: a decoy (another id, one 2-octet field)
// and then the real one, so that per-record state of the template parser matters
const verifTplSetLen = 4 + 8 + 4 + 8

func (t verifTpl) writeTplSet(w *verifW) {
	w.u16(0)
	w.u16(verifTplSetLen)
	w.u16(t.decoy)
	w.u16(1)
	w.u16(t.fd.spec.ElementID)
	w.u16(6)
	w.u16(t.tid)
	w.u16(2)
	w.u16(t.f1.spec.ElementID)
	w.u16(4)
	w.u16(t.f2.spec.ElementID)
	w.u16(uint16(t.l))
}

type verifRec struct {
	v uint32
	s []byte
}

func verifArbRec(t verifTpl) verifRec { return verifRec{v: verifNondetU32(), s: verifNondetBytes(t.l)} }
func (r verifRec) write(w *verifW) {
	w.u32(r.v)
	for i := 0; i < len(r.s); i++ {
		w.u8(r.s[i])
	}
}

func verifWriteHeader(w *verifW) (cnt uint16, up, secs, seq, src uint32) {
	cnt, up, secs, seq, src = verifNondetU16(), verifNondetU32(), verifNondetU32(), verifNondetU32(), verifNondetU32()
	w.u16(9)
	w.u16(cnt)
	w.u32(up)
	w.u32(secs)
	w.u32(seq)
	w.u32(src)
	return
}

func verifCheckRec(fs []DecodedField, t verifTpl, r verifRec) {
	verifAssert(len(fs) == 2, "record has one entry per template field")
	verifAssert(fs[0].ID == t.f1.entry.FieldID, "field 1: type id")
	x, ok := fs[0].Value.(uint32)
	verifAssert(verifAll(ok, x == r.v), "field 1: unsigned32 value")
	verifAssert(fs[1].ID == t.f2.entry.FieldID, "field 2: type id")
	s, ok2 := fs[1].Value.(string)
	verifAssert(ok2, "field 2: string")
	verifAssert(verifStrEq(s, string(r.s)), "field 2: text")
}

func verifAddrEq4(a, b net.IP) bool {
	return verifAll(verifAt(a, 0) == verifAt(b, 0), verifAt(a, 1) == verifAt(b, 1), verifAt(a, 2) == verifAt(b, 2), verifAt(a, 3) == verifAt(b, 3))
}

// template and data in one packet; two records; flowset padding 0..3.
func VerifV9MessageOne() {
	t := verifMsgTemplate()
	r1, r2, r3 := verifArbRec(t), verifArbRec(t), verifArbRec(t)
	pad := verifCase(4)
	dlen := 4 + 3*(4+t.l) + pad
	dec := verifNondetBytes(6) // one record of the decoy template, in a data flowset of its own
	total := 20 + verifTplSetLen + dlen + 10
	w := &verifW{b: make([]byte, total)}
	cnt, up, secs, seq, src := verifWriteHeader(w)
	t.writeTplSet(w)
	w.u16(t.tid)
	w.u16(uint16(dlen))
	r1.write(w)
	r2.write(w)
	r3.write(w)
	for i := 0; i < pad; i++ {
		w.u8(0)
	}
	w.u16(t.decoy)
	w.u16(10)
	for i := 0; i < 6; i++ {
		w.u8(dec[i])
	}
	addr := net.IP{198, 51, 100, 77} // (the exporter address plays no role here; C04 covers it)
	shardNo = 2 // (the sharding arithmetic is C04's subject)
	m := verifNewCache()
	verifAssume(int(verifRefHash(addr, t.tid)%2) == verifSplit(2))
	if verifKnown("C04-hash-collision") {
		verifAssume(verifRefHash(addr, t.tid) != verifRefHash(addr, t.decoy))
	}
	msg, err := NewDecoder(addr, w.b).Decode(m)
	verifAssert(err == nil, "well-formed packet decodes without error")
	verifAssert(msg != nil, "well-formed packet yields a message")
	h := msg.Header
	verifAssert(verifAll(h.Version == 9, h.Count == cnt, h.SysUpTime == up, h.UNIXSecs == secs, h.SeqNum == seq, h.SrcID == src), "packet header fields")
	verifAssert(len(msg.DataSets) == 4, "exactly one entry per data record")
	verifCheckRec(msg.DataSets[0], t, r1)
	verifCheckRec(msg.DataSets[1], t, r2)
	verifCheckRec(msg.DataSets[2], t, r3)
	// the record of the first template of the template flowset (decoded with ITS template)
	verifAssert(len(msg.DataSets[3]) == 1, "decoy record has its one field")
	verifAssert(msg.DataSets[3][0].ID == t.fd.entry.FieldID, "decoy record: field type id")
	dv, okd := msg.DataSets[3][0].Value.([]byte)
	verifAssert(okd, "decoy record: octetArray value")
	verifAssert(verifBytesEq(dv, dec), "decoy record: octets")
	verifReach("end")
}

// template announced in an earlier packet; data from the same exporter decodes with it,
// data from another exporter (or under another id) is reported unknown and yields no records.
func VerifV9MessageTwo() {
	t := verifMsgTemplate()
	r1 := verifArbRec(t)
	w1 := &verifW{b: make([]byte, 20+verifTplSetLen)}
	verifWriteHeader(w1)
	t.writeTplSet(w1)
	did := verifNondetU16()
	verifAssume(did > 255)
	dlen := 4 + 4 + t.l
	w2 := &verifW{b: make([]byte, 20+dlen)}
	verifWriteHeader(w2)
	w2.u16(did)
	w2.u16(uint16(dlen))
	r1.write(w2)

	a := net.IP(verifNondetBytes(4))
	b := net.IP(verifNondetBytes(4))
	shardNo = 2
	m := verifNewCache()
	verifAssume(int(verifRefHash(a, t.tid)%2) == verifSplit(2))
	same := verifAll(verifAddrEq4(a, b), did == t.tid)
	// the first packet also announces the decoy template: data under that id is not "unknown"
	verifAssume(!verifAll(verifAddrEq4(a, b), did == t.decoy))
	if verifKnown("C04-hash-collision") {
		verifAssume(verifRefHash(a, t.tid) != verifRefHash(a, t.decoy))
		if !same {
			verifAssume(verifAll(verifRefHash(a, t.tid) != verifRefHash(b, did), verifRefHash(a, t.decoy) != verifRefHash(b, did)))
		}
	}
	msg1, err1 := NewDecoder(a, w1.b).Decode(m)
	verifAssert(verifAll(err1 == nil, msg1 != nil), "template-only packet decodes")
	verifAssert(len(msg1.DataSets) == 0, "template-only packet yields no records")
	msg2, err2 := NewDecoder(b, w2.b).Decode(m)
	verifAssert(msg2 != nil, "data packet yields a message")
	if same {
		verifAssert(err2 == nil, "data for an announced template decodes")
		verifAssert(len(msg2.DataSets) == 1, "one record")
		verifCheckRec(msg2.DataSets[0], t, r1)
	} else {
		verifAssert(err2 != nil, "data whose template this exporter has not announced is reported")
		verifAssert(len(msg2.DataSets) == 0, "and yields no records")
	}
	verifReach("end")
}

// witness of the known finding C06-short-records: records of <= 4 octets are taken for padding.
func VerifKFV9ShortRecords() {
	ipfix.InfoModel = ipfix.IANAInfoModel{}
	f := verifArbField(Uint16, 0)
	tid := verifNondetU16()
	verifAssume(tid > 255)
	w := &verifW{b: make([]byte, 20+12+8)}
	verifWriteHeader(w)
	w.u16(0)
	w.u16(12)
	w.u16(tid)
	w.u16(1)
	w.u16(f.spec.ElementID)
	w.u16(2)
	v1, v2 := verifNondetU16(), verifNondetU16()
	w.u16(tid)
	w.u16(8)
	w.u16(v1)
	w.u16(v2)
	addr := net.IP(verifNondetBytes(4))
	m := verifNewCache()
	_, h1 := m.getShard(tid, addr)
	verifAssume(int(h1%32) == 0)
	msg, _ := NewDecoder(addr, w.b).Decode(m)
	verifAssert(msg != nil, "packet decodes")
	verifAssert(len(msg.DataSets) == 2, "short records: exactly one entry per data record")
	verifReach("end")
}

// (C04) re-announcement in general, NetFlow v9: definition A of a template id is followed by
// definition B of the same id by the same exporter, in the same packet or in a later one. Both
// have two unsigned32 fields (options template: the first is a scope field). B's first and second
// field are, independently, the same element as in A or another one. The record that follows
// must carry B's element ids, whatever B changed.
func VerifV9ReannounceAny() {
	ipfix.InfoModel = ipfix.IANAInfoModel{}
	tid := verifNondetU16()
	verifAssume(tid > 255)
	a1, a2 := verifArbField(Uint32, 0), verifArbField(Uint32, 0)
	n1, n2 := verifArbField(Uint32, 0), verifArbField(Uint32, 0)
	b1, b2 := a1, a2
	if verifCase(2) == 1 {
		b1 = n1
	}
	if verifCase(2) == 1 {
		b2 = n2
	}
	opts := verifCase(2) == 1
	layout := verifCase(3) // 0: A, B, data in one message; 1: A in an earlier datagram; 2: A, data, B, data in one message
	two := layout == 1
	tl := 4 + 4 + 8
	if opts {
		tl = 4 + 6 + 8 + 2
	}
	tset := func(w *verifW, f1, f2 verifField) {
		if opts {
			w.u16(1)
			w.u16(uint16(tl))
			w.u16(tid)
			w.u16(4)
			w.u16(4)
		} else {
			w.u16(0)
			w.u16(uint16(tl))
			w.u16(tid)
			w.u16(2)
		}
		w.u16(f1.spec.ElementID)
		w.u16(4)
		w.u16(f2.spec.ElementID)
		w.u16(4)
		if opts {
			w.u16(0) // padding to a 32-bit boundary
		}
	}
	v1, v2 := verifNondetU32(), verifNondetU32()
	addr := net.IP{192, 0, 2, 9}
	shardNo = 2
	m := GetCache("/nonexistent/verif-cache")
	var msg *Message
	var err error
	if two {
		w1 := &verifW{b: make([]byte, 20+tl)}
		verifWriteHeader(w1)
		tset(w1, a1, a2)
		_, err1 := NewDecoder(addr, w1.b).Decode(m)
		verifAssert(err1 == nil, "first announcement decodes")
		w2 := &verifW{b: make([]byte, 20+tl+12)}
		verifWriteHeader(w2)
		tset(w2, b1, b2)
		w2.u16(tid)
		w2.u16(12)
		w2.u32(v1)
		w2.u32(v2)
		msg, err = NewDecoder(addr, w2.b).Decode(m)
	} else if layout == 2 {
		// data for the id on both sides of the re-announcement: each flowset is decoded with the
		// definition in force where it stands
		u1, u2 := verifNondetU32(), verifNondetU32()
		w := &verifW{b: make([]byte, 20+2*tl+24)}
		verifWriteHeader(w)
		tset(w, a1, a2)
		w.u16(tid)
		w.u16(12)
		w.u32(u1)
		w.u32(u2)
		tset(w, b1, b2)
		w.u16(tid)
		w.u16(12)
		w.u32(v1)
		w.u32(v2)
		msg, err = NewDecoder(addr, w.b).Decode(m)
		verifAssert(verifAll(err == nil, msg != nil), "packet with a re-announced template decodes")
		verifAssert(len(msg.DataSets) == 2, "one record per data flowset")
		f0 := msg.DataSets[0]
		verifAssert(len(f0) == 2, "record has one entry per template field")
		verifAssert(verifAll(f0[0].ID == a1.entry.FieldID, f0[1].ID == a2.entry.FieldID), "the record BEFORE the re-announcement is decoded with the first definition")
		y1, oy1 := f0[0].Value.(uint32)
		y2, oy2 := f0[1].Value.(uint32)
		verifAssert(verifAll(oy1, oy2, y1 == u1, y2 == u2), "the first record's values")
		msg.DataSets = msg.DataSets[1:]
	} else {
		w := &verifW{b: make([]byte, 20+2*tl+12)}
		verifWriteHeader(w)
		tset(w, a1, a2)
		tset(w, b1, b2)
		w.u16(tid)
		w.u16(12)
		w.u32(v1)
		w.u32(v2)
		msg, err = NewDecoder(addr, w.b).Decode(m)
	}
	verifAssert(verifAll(err == nil, msg != nil), "packet with a re-announced template decodes")
	verifAssert(len(msg.DataSets) == 1, "one record")
	fs := msg.DataSets[0]
	verifAssert(len(fs) == 2, "record has one entry per template field")
	verifAssert(verifAll(fs[0].ID == b1.entry.FieldID, fs[1].ID == b2.entry.FieldID), "the record is decoded with the LATEST definition of the template (element ids)")
	x1, ok1 := fs[0].Value.(uint32)
	x2, ok2 := fs[1].Value.(uint32)
	verifAssert(verifAll(ok1, ok2, x1 == v1, x2 == v2), "the record's values")
	got, ok := m.retrieve(tid, addr)
	verifAssert(ok, "the template is in the cache")
	if opts {
		verifAssert(verifAll(len(got.ScopeFieldSpecifiers) == 1, len(got.FieldSpecifiers) == 1), "cached options template: one scope field, one field")
		verifAssert(verifAll(got.ScopeFieldSpecifiers[0].ElementID == b1.spec.ElementID, got.FieldSpecifiers[0].ElementID == b2.spec.ElementID), "the cache holds the latest definition")
	} else {
		verifAssert(len(got.FieldSpecifiers) == 2, "cached template: two fields")
		verifAssert(verifAll(got.FieldSpecifiers[0].ElementID == b1.spec.ElementID, got.FieldSpecifiers[1].ElementID == b2.spec.ElementID), "the cache holds the latest definition")
	}
	verifReach("end")
}
