//go:build verif

package netflow9

import "net"

// C04 — data is decoded only with the same exporter's latest template.
// Real cache (GetCache on an absent file), real getShard incl. the real hash/fnv code.

func verifAddr() net.IP {
	l := 4 + 12*verifCase(2)
	return net.IP(verifNondetBytes(l))
}

func verifAddrEq(a, b net.IP) bool {
	if len(a) != len(b) {
		return false
	}
	eq := true
	for i := 0; i < len(a); i++ {
		eq = verifAll(eq, verifAt(a, i) == verifAt(b, i))
	}
	return eq
}

// a template of one of the shapes decoding produces: one or two fields, or one scope field and
// one field (options template); every specifier is arbitrary
func verifTemplate(id uint16) TemplateRecord {
	spec := func() TemplateFieldSpecifier {
		return TemplateFieldSpecifier{ElementID: verifNondetU16(), Length: verifNondetU16()}
	}
	switch verifCase(3) {
	case 0:
		return TemplateRecord{TemplateID: id, FieldCount: 1, FieldSpecifiers: []TemplateFieldSpecifier{spec()}}
	case 1:
		return TemplateRecord{TemplateID: id, FieldCount: 2, FieldSpecifiers: []TemplateFieldSpecifier{spec(), spec()}}
	}
	return TemplateRecord{TemplateID: id, FieldCount: 2, ScopeFieldCount: 1, ScopeFieldSpecifiers: []TemplateFieldSpecifier{spec()}, FieldSpecifiers: []TemplateFieldSpecifier{spec()}}
}

func verifSameTemplate(x, y TemplateRecord) bool {
	if len(x.FieldSpecifiers) != len(y.FieldSpecifiers) || len(x.ScopeFieldSpecifiers) != len(y.ScopeFieldSpecifiers) {
		return false
	}
	eq := verifAll(x.TemplateID == y.TemplateID, x.FieldCount == y.FieldCount, x.ScopeFieldCount == y.ScopeFieldCount)
	for i := range x.FieldSpecifiers {
		eq = verifAll(eq, x.FieldSpecifiers[i] == y.FieldSpecifiers[i])
	}
	for i := range x.ScopeFieldSpecifiers {
		eq = verifAll(eq, x.ScopeFieldSpecifiers[i] == y.ScopeFieldSpecifiers[i])
	}
	return eq
}

// FNV-1 (32 bit) of the exporter address octets followed by the big-endian template id: the
// key the cache is DOCUMENTED to use. The guard of the known finding (pairs that collide
// under this hash) is expressed with this reference, not with whatever the implementation
// computes, so that a changed key computation is not excused by it.
func verifRefHash(a net.IP, id uint16) uint32 {
	h := uint32(2166136261)
	for i := 0; i < len(a); i++ {
		h = (h * 16777619) ^ uint32(verifAt(a, i))
	}
	h = (h * 16777619) ^ uint32(id>>8)
	h = (h * 16777619) ^ uint32(id&0xff)
	return h
}

func verifNewCache() MemCache {
	return GetCache("/nonexistent/verif-cache") // ReadFile fails => fresh 32-shard cache
}

// split s: the first key lives in shard s (all 32 shards in the thorough tier)
func verifPinShard(m MemCache, id uint16, addr net.IP) uint32 {
	_, h := m.getShard(id, addr)
	s := verifSplit(verifParam("shards", 32))
	verifAssume(int(h%32) == s)
	return h
}

// the second key lives in the same shard or in one at a distance taken from a small set
// (the shard arithmetic is data-independent; every distance is covered in the thorough tier)
func verifPinSecond(m MemCache, id uint16, addr net.IP, h1 uint32) uint32 {
	_, h2 := m.getShard(id, addr)
	nd := verifParam("dists", 2)
	d := verifCase(nd)
	if nd == 32 {
		verifAssume((h2-h1)%32 == uint32(d))
	} else {
		dist := [4]uint32{0, 1, 7, 31}
		verifAssume((h2-h1)%32 == dist[d])
	}
	return h2
}

// (a) a template announced by (a,i) is never returned for a different (a',i').
func VerifV9CacheIsolation() {
	m := verifNewCache()
	a, i := verifAddr(), verifNondetU16()
	h1 := verifPinShard(m, i, a)
	b, j := verifAddr(), verifNondetU16()
	verifAssume(!verifAll(verifAddrEq(a, b), i == j))
	verifPinSecond(m, j, b, h1)
	if verifKnown("C04-hash-collision") {
		// known finding: the map is keyed by the 32-bit hash alone; see the collision witness
		verifAssume(verifRefHash(a, i) != verifRefHash(b, j))
	}
	m.insert(i, a, verifTemplate(i))
	_, ok := m.retrieve(j, b)
	verifAssert(!ok, "a template is never returned for another exporter/id pair")
	_, ok = m.retrieve(i, a)
	verifAssert(ok, "the announced template is found for its own exporter/id pair")
	verifReach("end")
}

// witness of the known finding: without the guard a colliding pair exists (searched among
// 4-octet exporter addresses whose keys fall into the pinned shard).
func VerifKFV9CacheCollision() {
	m := verifNewCache()
	a, i := net.IP(verifNondetBytes(4)), verifNondetU16()
	h1 := verifPinShard(m, i, a)
	b, j := net.IP(verifNondetBytes(4)), verifNondetU16()
	verifAssume(!verifAll(verifAddrEq(a, b), i == j))
	_, h2 := m.getShard(j, b)
	verifAssume((h2-h1)%32 == 0)
	m.insert(i, a, verifTemplate(i))
	_, ok := m.retrieve(j, b)
	verifAssert(!ok, "a template is never returned for another exporter/id pair")
	verifReach("end")
}

// (b) the latest announcement wins, and another exporter's announcements do not disturb it.
func VerifV9CacheLatest() {
	m := verifNewCache()
	a, i := verifAddr(), verifNondetU16()
	h1 := verifPinShard(m, i, a)
	b, j := verifAddr(), verifNondetU16()
	verifAssume(!verifAll(verifAddrEq(a, b), i == j))
	verifPinSecond(m, j, b, h1)
	if verifKnown("C04-hash-collision") {
		verifAssume(verifRefHash(a, i) != verifRefHash(b, j))
	}
	t1, t2, t3 := verifTemplate(i), verifTemplate(i), verifTemplate(j)
	m.insert(i, a, t1)
	m.insert(j, b, t3)
	m.insert(i, a, t2)
	got, ok := m.retrieve(i, a)
	verifAssert(ok, "re-announced template is found")
	verifAssert(verifSameTemplate(got, t2), "the latest announcement is the one in force")
	got3, ok3 := m.retrieve(j, b)
	verifAssert(ok3, "the other exporter's template is found")
	verifAssert(verifSameTemplate(got3, t3), "the other exporter's template is its own")
	verifReach("end")
}

// C01: the real cache operations never panic, for 4- and 16-octet exporter addresses and any id.
func VerifV9CacheOpsNoPanic() {
	m := verifNewCache()
	var a net.IP
	if verifCase(2) == 0 {
		a = net.IP{192, 0, 2, 33}
	} else {
		a = net.IP{0x20, 0x01, 0x0d, 0xb8, 0, 0, 0, 0, 0, 0, 0, 0, 0, 0, 0, 0x33}
	}
	id := verifNondetU16()
	m.insert(id, a, verifTemplate(id))
	tr, ok := m.retrieve(id, a)
	verifAssert(verifAll(ok, tr.TemplateID == id), "an inserted template is found")
	m.retrieve(verifNondetU16(), a)
	verifReach("end")
}
