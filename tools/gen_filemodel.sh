#!/bin/bash
# regenerates harness/ipfix_model/zz_filemodel.go from /repo/scripts/ipfix.elements via the real loader
set -e
export GOFLAGS=-mod=mod GOPROXY=off GOSUMDB=off GOTOOLCHAIN=local
tmp=$(mktemp -d /tmp/verif-genmodel-XXXXXX)
trap 'rm -rf "$tmp"' EXIT
cp /verif/tools/genmodel/main.go.txt "$tmp/main.go"
printf '{"Replace":{"/repo/zz_verif_genmodel/main.go":"%s/main.go"}}' "$tmp" > "$tmp/ov.json"
cd /repo && go run -overlay "$tmp/ov.json" ./zz_verif_genmodel /repo/scripts/ipfix.elements /verif/harness/ipfix_model/zz_filemodel.go
