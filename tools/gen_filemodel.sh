#!/bin/bash
# regenerates harness/ipfix_model/zz_filemodel.go from <repo>/scripts/ipfix.elements via the real loader
# (<repo> is /repo; VERIF_REPO overrides it for the seeded-change regression only)
set -e
export GOFLAGS=-mod=mod GOPROXY=off GOSUMDB=off GOTOOLCHAIN=local
R=${VERIF_REPO:-/repo}
tmp=$(mktemp -d /tmp/verif-genmodel-XXXXXX)
trap 'rm -rf "$tmp"' EXIT
cp /verif/tools/genmodel/main.go.txt "$tmp/main.go"
printf '{"Replace":{"%s/zz_verif_genmodel/main.go":"%s/main.go"}}' "$R" "$tmp" > "$tmp/ov.json"
cd "$R" && go run -overlay "$tmp/ov.json" ./zz_verif_genmodel "$R/scripts/ipfix.elements" /verif/harness/ipfix_model/zz_filemodel.go
