#!/bin/bash
# tools/seed_eval.sh <PROPERTY> <agent-worktree> <seed-name> [checks...]
# 1. confirms in a fresh scratch worktree that the seeded change compiles, passes the baseline
#    tests, and that its demonstration fails with it and passes without it;
# 2. stores it under /verif/seeded/<seed-name>/;
# 3. runs the given checks (default: the property's) against the patched tree: by default a
#    scratch worktree (VERIF_REPO/VERIF_EVIDENCE, so /repo and /verif/evidence stay untouched
#    and several evaluations can run side by side); with SEED_EVAL_INPLACE=1 it applies the
#    patch to /repo itself, runs the checks, and restores /repo.
export GOFLAGS=-mod=mod GOPROXY=off GOSUMDB=off GOTOOLCHAIN=local
prop=$1; wt=$2; name=$3; shift 3; checks=${*:-$prop}
out=/verif/seeded/$name; mkdir -p $out
cp $wt/seed/patch.diff $out/patch.diff
[ -f $wt/seed/README.txt ] && cp $wt/seed/README.txt $out/README.txt
# demonstration test: untracked *_test.go files of the agent's worktree
demos=$(git -C $wt status --porcelain | awk '$1=="??" && $2 ~ /_test\.go$/ {print $2}')
sc=/tmp/sc-$name; rm -rf $sc; git -C /repo worktree add -q $sc HEAD || exit 2
res=""
( cd $sc && git apply $out/patch.diff ) || { echo "patch does not apply"; git -C /repo worktree remove --force $sc; exit 2; }
for d in $demos; do mkdir -p $out/demo/$(dirname $d); cp $wt/$d $out/demo/$d; done
build=$(cd $sc && go build ./... 2>&1 | tail -3); [ -z "$build" ] && build=ok
base=$(cd $sc && go test -vet=off -count=1 ./ipfix/... ./netflow/... ./sflow/... ./packet/... ./reader/... ./mirror/... ./producer/... ./stress/... 2>&1 | grep -c "^ok")
basefail=$(cd $sc && go test -vet=off -count=1 ./ipfix/... ./netflow/... ./sflow/... ./packet/... ./reader/... ./mirror/... ./producer/... ./stress/... 2>&1 | grep -c "^FAIL\|^---")
for d in $demos; do cp $wt/$d $sc/$d; done
pk=$(for d in $demos; do echo ./$(dirname $d)/; done | sort -u | tr '\n' ' ')
with=$(cd $sc && timeout 300 go test -vet=off -count=1 -run Demo $pk 2>&1 | grep -c "^ok")
withfail=$(cd $sc && timeout 300 go test -vet=off -count=1 -run Demo $pk 2>&1 | grep -c "^FAIL\|panic:")
( cd $sc && git apply -R $out/patch.diff )
without=$(cd $sc && timeout 300 go test -vet=off -count=1 -run Demo $pk 2>&1 | grep -c "^FAIL\|panic:")
[ -n "$SEED_EVAL_INPLACE" ] && git -C /repo worktree remove --force $sc
echo "seed $name: build=$build baseline_ok_pkgs=$base baseline_failures=$basefail demo_with_change_failures=$withfail demo_without_change_failures=$without"
# run the checks against it
cd /verif
declare -A rc
if [ -n "$SEED_EVAL_INPLACE" ]; then
  git -C /repo apply $out/patch.diff || { echo "patch does not apply to /repo"; exit 2; }
  for c in $checks; do
    s=$(date +%s); ./check $c --tier quick > $out/check_$c.log 2>&1; rc[$c]=$?; e=$(date +%s)
    echo "  check $c on seeded tree: exit=${rc[$c]} ($((e-s))s) $(grep -c '^VIOLATION' $out/check_$c.log) violation lines"
  done
  git -C /repo checkout -- . ; git -C /repo status --short | head -3
else
  ( cd $sc && git checkout -q -- . && git clean -fdq && git apply $out/patch.diff ) || { echo "patch does not apply"; exit 2; }
  ev=/tmp/seedev-$name; rm -rf $ev; mkdir -p $ev
  for c in $checks; do
    s=$(date +%s); VERIF_REPO=$sc VERIF_EVIDENCE=$ev ./check $c --tier quick > $out/check_$c.log 2>&1; rc[$c]=$?; e=$(date +%s)
    echo "  check $c on seeded tree: exit=${rc[$c]} ($((e-s))s) $(grep -c '^VIOLATION' $out/check_$c.log) violation lines"
  done
  git -C /repo worktree remove --force $sc; rm -rf $ev
fi
python3 - "$prop" "$name" "$base" "$basefail" "$withfail" "$without" "$build" "$checks" <<PY
import json,sys,os
prop,name,base,basefail,withfail,without,build,checks=sys.argv[1:9]
out=f"/verif/seeded/{name}"
readme=open(out+"/README.txt").read() if os.path.exists(out+"/README.txt") else ""
results={}
for c in checks.split():
    log=open(f"{out}/check_{c}.log").read()
    results[c]={"violation_lines":log.count("\nVIOLATION")+ (1 if log.startswith("VIOLATION") else 0),"last_line":log.strip().splitlines()[-1] if log.strip() else ""}
meta={"breaks_property":prop,"what_it_needs_to_manifest":readme,"confirmed":{"builds":build=="ok","baseline_packages_ok":int(base),"baseline_failures":int(basefail),"demo_fails_with_change":int(withfail)>0,"demo_passes_without_change":int(without)==0},
 "what_was_run":["go build ./...","go test -vet=off -count=1 ./ipfix/... ./netflow/... ./sflow/... ./packet/... ./reader/... ./mirror/... ./producer/... ./stress/... (with the change)","demonstration test with the change (must fail) and after git apply -R (must pass)","./check <id> --tier quick against the tree with patch.diff applied (a scratch worktree of /repo via VERIF_REPO, or /repo itself: git -C /repo apply patch.diff; ./check <id>; git -C /repo checkout -- .)"],
 "checks_run_against_it":results}
json.dump(meta,open(out+"/meta.json","w"),indent=1)
PY
