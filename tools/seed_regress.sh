#!/bin/bash
# tools/seed_regress.sh [seed-name ...]
# Re-runs, for every stored seeded change (default: all of /verif/seeded/*), the checks that
# are recorded as catching it, against a scratch worktree of /repo with the patch applied
# (VERIF_REPO / VERIF_EVIDENCE keep /repo and /verif/evidence untouched). Prints one line per
# seed and check; exit 1 if a seed that used to be detected is not detected any more.
export GOFLAGS=-mod=mod GOPROXY=off GOSUMDB=off GOTOOLCHAIN=local
cd /verif
seeds=${*:-$(ls seeded)}
wt=/tmp/seedreg-wt; ev=/tmp/seedreg-ev
rm -rf $ev; mkdir -p $ev
git -C /repo worktree remove --force $wt 2>/dev/null; rm -rf $wt
git -C /repo worktree add -q $wt HEAD || exit 2
bad=0
for s in $seeds; do
  d=seeded/$s
  [ -f $d/patch.diff ] || continue
  checks=$(python3 -c "
import json
m=json.load(open('$d/meta.json'))
print(' '.join(k for k,v in m.get('checks_run_against_it',{}).items() if v.get('violation_lines',0)>0))")
  ( cd $wt && git checkout -q -- . && git apply /verif/$d/patch.diff ) || { echo "$s: patch does not apply"; bad=1; continue; }
  for c in $checks; do

    t0=$(date +%s)
    VERIF_REPO=$wt VERIF_EVIDENCE=$ev ./check $c --tier quick > $ev/$s-$c.log 2>&1; rc=$?
    t1=$(date +%s)
    n=$(grep -c '^VIOLATION' $ev/$s-$c.log)
    echo "$s $c exit=$rc violations=$n ($((t1-t0))s)"
    [ $rc = 1 ] && [ $n -gt 0 ] || bad=1
  done
done
git -C /repo worktree remove --force $wt
[ -f /verif/harness/ipfix_model/zz_filemodel.go ] && bash tools/gen_filemodel.sh >/dev/null 2>&1
exit $bad
