#!/usr/bin/env python3
"""Regenerates /verif/MANIFEST.json from tools/manifest_src.json (claimed checks) and
properties.jsonl (everything else goes to not_applicable with its reason)."""
import json, os, sys
root = '/verif'
props = [json.loads(l) for l in open(f'{root}/properties.jsonl')]
src = json.load(open(f'{root}/tools/manifest_src.json'))
checks = []
for pid, c in sorted(src['checks'].items()):
    if not os.path.exists(f'{root}/props/{pid}.json'):
        sys.exit(f'{pid}: no props file')
    checks.append({
        "property_id": pid,
        "quick_cmd": f"./check {pid} --tier quick",
        "thorough_cmd": f"./check {pid} --tier thorough",
        "evidence_file": f"/verif/evidence/{pid}.json",
        "replay_cmd_template": "./check --replay {path}",
        "engine": "gosmt",
        "level_claimed": {"category": "model_checking", "text": c["text"], "design_ref": c.get("design_ref", "DESIGN.md section 3 / " + pid)},
        "level_note": c["note"],
        "technique": c.get("technique", "bounded symbolic execution of the real Go SSA into SMT-LIB2 (bit-vectors + arrays), every branch/panic site/assertion decided by z3; counterexamples replayed natively"),
    })
na = []
for p in props:
    if p['id'] in src['checks']:
        continue
    na.append({"property_id": p['id'], "reason": src['not_applicable'].get(p['id'], "check not built yet (build in progress); see DESIGN.md")})
m = {
 "version": 1,
 "setup_cmd": "cd /verif/engine && GOFLAGS=-mod=mod GOPROXY=off GOSUMDB=off GOTOOLCHAIN=local go build -o ../bin/gosmt . && ../bin/gosmt selftest",
 "hooks": {"guard": "verif",
           "enable": "no file in /repo carries the tag: harnesses are injected as overlays (go/packages Overlay for the executor, go test -overlay -tags verif for native replay) and carry //go:build verif themselves",
           "baseline_off_cmd": "cd /repo && go test -mod=mod -json -vet=off -count=1 -timeout 25m ./...",
           "source_commits": src.get("source_commits", []), "add_only": True},
 "engines": [{"name": "gosmt", "path": "/verif/engine", "serves_properties": sorted(src['checks'].keys()),
              "kind_free_text": "own symbolic executor for Go SSA (golang.org/x/tools/go/ssa v0.29.0) emitting SMT-LIB2 to a long-lived z3 -in; path-based, bounded by unwinding assertions; every sat answer is replayed against the natively compiled real code (go test -overlay) before it is reported"}],
 "checks": checks,
 "notes": src.get("notes", ""),
 "not_applicable": na,
}
json.dump(m, open(f'{root}/MANIFEST.json', 'w'), indent=1)
print(f"{len(checks)} checks, {len(na)} not applicable")
