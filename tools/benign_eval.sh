#!/bin/bash
# tools/benign_eval.sh <agent-worktree> <name> <checks...>
# A behaviour-preserving change (written by a sub-agent that saw nothing of /verif): stores it
# under /verif/benign/<name>/ and runs the given quick checks against a scratch worktree with
# the patch applied. Every check must exit 0 (same KNOWN-FINDING lines as on the unchanged tree).
export GOFLAGS=-mod=mod GOPROXY=off GOSUMDB=off GOTOOLCHAIN=local
wt=$1; name=$2; shift 2; checks=$*
out=/verif/benign/$name; mkdir -p $out
cp $wt/seed/patch.diff $out/patch.diff
[ -f $wt/seed/README.txt ] && cp $wt/seed/README.txt $out/README.txt
sc=/tmp/sb-$name; rm -rf $sc; git -C /repo worktree add -q $sc HEAD || exit 2
( cd $sc && git apply $out/patch.diff ) || { echo "patch does not apply"; git -C /repo worktree remove --force $sc; exit 2; }
build=$(cd $sc && go build ./... 2>&1 | tail -3); [ -z "$build" ] && build=ok
base=$(cd $sc && go test -vet=off -count=1 ./ipfix/... ./netflow/... ./sflow/... ./packet/... ./reader/... ./mirror/... ./producer/... ./stress/... ./vflow/ 2>&1 | grep -c "^FAIL\|^---")
echo "benign $name: build=$build baseline_failures=$base"
cd /verif
ev=/tmp/sbev-$name; rm -rf $ev; mkdir -p $ev
res=""
for c in $checks; do
  s=$(date +%s); VERIF_REPO=$sc VERIF_EVIDENCE=$ev ./check $c --tier quick > $out/check_$c.log 2>&1; rc=$?; e=$(date +%s)
  echo "  check $c on refactored tree: exit=$rc ($((e-s))s) $(grep -c '^VIOLATION' $out/check_$c.log) violation lines, $(grep -c '^INCONCLUSIVE' $out/check_$c.log) inconclusive lines"
  res="$res $c=$rc"
done
git -C /repo worktree remove --force $sc; rm -rf $ev
echo "$res" > $out/result.txt
