#!/bin/bash
# re-runs every registered check (quick tier) on the current tree so that the committed
# evidence files describe a clean run
cd /verif
for id in $(python3 -c "import json;print(' '.join(c['property_id'] for c in json.load(open('MANIFEST.json'))['checks']))"); do
  if [ -n "$1" ] && ! echo " $* " | grep -q " $id "; then continue; fi
  s=$(date +%s); ./check $id --tier quick > /tmp/refresh_$id.log 2>&1; rc=$?; e=$(date +%s)
  echo "$id exit=$rc $((e-s))s $(tail -1 /tmp/refresh_$id.log | cut -c1-160)"
done
