package main

import (
	"fmt"
	"sort"
	"strings"

	"golang.org/x/tools/go/ssa"
)

// Trace mode (C10). verifConcurrent(ops...) runs each operation once, single-threaded, on
// the shared concrete heap and records, per thread, the events that matter for
// synchronisation: Lock/Unlock/RLock/RUnlock of a mutex and MapRead/MapWrite/MapIter/MapLen
// of a map object. The real code contributes which lock is held around which access on
// which object. All interleavings are then explored by the solver: every event gets an
// integer position; program order, mutual exclusion of write sections with every other
// section of the same mutex, and of read sections with write sections, are asserted; a data
// race is a pair of conflicting map accesses of different threads that can be adjacent.

func init() {
	verifExtra["verifConcurrent"] = func(ex *Exec, st *State, fv FuncV, args []Value, res ssa.Value, at ssa.Instruction) bool {
		sl := args[0].(SliceV)
		var ops []FuncV
		if sl.obj != 0 {
			for _, e := range st.container(sl).(ArrV).e[sl.off.v : sl.off.v+sl.len.v] {
				ops = append(ops, e.(FuncV))
			}
		}
		st.traceOn = true
		st.events = nil
		st.phaseBase = *st.nextObj
		st.published = nil
		// the operations themselves (closures and what they capture) are shared
		for _, op := range ops {
			_ = op
		}
		return ex.runThread(st, ops, 0, res, at)
	}
}

func (ex *Exec) runThread(st *State, ops []FuncV, i int, res ssa.Value, at ssa.Instruction) bool {
	if i == len(ops) {
		st.traceOn = false
		st.thread = 0
		ex.scheduleCheck(st, len(ops), at)
		setRes(st, res, TupleV{})
		return true
	}
	st.thread = i + 1
	if !ex.enter(st, ops[i], nil, nil, at) {
		return false
	}
	st.top().onReturn = func(st *State, r Value) {
		// continue with the next thread on the same path (paths forked inside an operation
		// each continue on their own)
		ex.runThreadCont(st, ops, i+1, res, at)
	}
	return true
}

func (ex *Exec) runThreadCont(st *State, ops []FuncV, i int, res ssa.Value, at ssa.Instruction) {
	ex.runThread(st, ops, i, res, at)
}

type section struct {
	thr      int
	mutex    string
	write    bool
	acq, rel int // event indices
}

func (ex *Exec) scheduleCheck(st *State, nthr int, at ssa.Instruction) {
	evs := filterAccesses(st.events)
	if len(evs) == 0 {
		return
	}
	sol := ex.sol
	sol.Push()
	defer sol.Pop()
	pos := make([]string, len(evs))
	for i := range evs {
		pos[i] = sol.FreshName("pos")
		sol.send(fmt.Sprintf("(declare-const %s Int)", pos[i]))
		sol.send(fmt.Sprintf("(assert (and (>= %s 0) (< %s %d)))", pos[i], pos[i], len(evs)))
	}
	sol.send("(assert (distinct " + strings.Join(pos, " ") + "))")
	// program order
	last := map[int]int{}
	for i, e := range evs {
		if p, ok := last[e.Thr]; ok {
			sol.send(fmt.Sprintf("(assert (< %s %s))", pos[p], pos[i]))
		}
		last[e.Thr] = i
	}
	// critical sections
	var secs []section
	open := map[string]int{} // thread|mutex|mode -> acquiring event
	for i, e := range evs {
		m := fmt.Sprintf("%d%s", e.Obj, e.Path)
		switch e.Kind {
		case "Lock", "RLock":
			open[fmt.Sprintf("%d|%s|%s", e.Thr, m, e.Kind)] = i
		case "Unlock", "RUnlock":
			k := fmt.Sprintf("%d|%s|%s", e.Thr, m, strings.TrimPrefix(strings.Replace(e.Kind, "Unlock", "Lock", 1), ""))
			if a, ok := open[k]; ok {
				secs = append(secs, section{thr: e.Thr, mutex: m, write: e.Kind == "Unlock", acq: a, rel: i})
				delete(open, k)
			} else {
				ex.recordViolation(st, "race", "unlock of a mutex this thread does not hold: "+e.Kind, at, nil)
			}
		}
	}
	for k, a := range open {
		// a section that is never released: treat as held to the end of the thread
		parts := strings.Split(k, "|")
		thr := evs[a].Thr
		secs = append(secs, section{thr: thr, mutex: parts[1], write: parts[2] == "Lock", acq: a, rel: last[thr]})
		ex.Notes["a lock acquired in a thread operation is not released by it"]++
	}
	for i := 0; i < len(secs); i++ {
		for j := i + 1; j < len(secs); j++ {
			a, b := secs[i], secs[j]
			if a.thr == b.thr || a.mutex != b.mutex || !(a.write || b.write) {
				continue
			}
			sol.send(fmt.Sprintf("(assert (or (< %s %s) (< %s %s)))", pos[a.rel], pos[b.acq], pos[b.rel], pos[a.acq]))
		}
	}
	// the interleaving model itself must be satisfiable (no deadlock in the recorded traces)
	if r := sol.Check(); r != "sat" {
		ex.Unsupp["schedule constraints are not satisfiable ("+r+"): the recorded traces cannot all run"]++
		return
	}
	// races
	isAcc := func(k string) bool { return strings.HasPrefix(k, "Map") || k == "Read" || k == "Write" }
	isWrite := func(k string) bool { return k == "MapWrite" || k == "Write" }
	type pair struct{ a, b int }
	var pairs []pair
	seenPair := map[string]bool{}
	for i := range evs {
		for j := i + 1; j < len(evs); j++ {
			a, b := evs[i], evs[j]
			if a.Thr == b.Thr || !isAcc(a.Kind) || !isAcc(b.Kind) || a.Obj != b.Obj || !(isWrite(a.Kind) || isWrite(b.Kind)) {
				continue
			}
			if strings.HasPrefix(a.Kind, "Map") != strings.HasPrefix(b.Kind, "Map") {
				continue
			}
			if !strings.HasPrefix(a.Kind, "Map") && !pathsOverlap(a.Path, b.Path) {
				continue
			}
			pairs = append(pairs, pair{i, j})
		}
	}
	ex.Notes[fmt.Sprintf("schedules of %d threads, %d events, %d lock sections, %d conflicting access pairs decided", nthr, len(evs), len(secs), len(pairs))]++
	for _, p := range pairs {
		q := fmt.Sprintf("(or (= %s (+ %s 1)) (= %s (+ %s 1)))", pos[p.a], pos[p.b], pos[p.b], pos[p.a])
		sol.Queries++
		sol.send("(push 1)")
		sol.send("(assert " + q + ")")
		sol.send("(check-sat)")
		sol.send("(echo \"@@done\")")
		sol.in.Flush()
		ans := "unknown"
		for {
			l := sol.readLine()
			if strings.Contains(l, "@@done") {
				break
			}
			if l == "sat" || l == "unsat" || l == "unknown" {
				ans = l
			}
		}
		if ans == "sat" {
			sol.Sat++
			// read the schedule
			vals := sol.GetValues(pos)
			type ev struct {
				p int
				s string
			}
			var order []ev
			for i, v := range vals {
				var n int
				fmt.Sscanf(v, "%d", &n)
				order = append(order, ev{n, fmt.Sprintf("T%d:%s(obj%d%s)", evs[i].Thr, evs[i].Kind, evs[i].Obj, evs[i].Path)})
			}
			sort.Slice(order, func(i, j int) bool { return order[i].p < order[j].p })
			var sb strings.Builder
			for _, o := range order {
				sb.WriteString(o.s + " ")
			}
			sol.send("(pop 1)")
			ex.note(st, "schedule: "+sb.String())
			a, b := evs[p.a], evs[p.b]
			msg := fmt.Sprintf("data race: %s by thread %d and %s by thread %d on the same map are not ordered by any lock", a.Kind, a.Thr, b.Kind, b.Thr)
			if !strings.HasPrefix(a.Kind, "Map") {
				msg = fmt.Sprintf("data race: %s in %s and %s in %s touch the same shared memory and are not ordered by any lock", a.Kind, a.Src, b.Kind, b.Src)
			}
			if !seenPair[msg] {
				seenPair[msg] = true
				ex.recordViolation(st, "race", msg, at, nil)
			}
			st.notes = st.notes[:len(st.notes)-1]
			continue
		}
		if ans == "unsat" {
			sol.Unsat++
		} else {
			sol.Unknown++
		}
		sol.send("(pop 1)")
	}
}

// filterAccesses drops plain memory accesses that cannot take part in a race: those on
// objects (and overlapping paths) that no other thread writes or that only one thread touches.
func filterAccesses(evs []Event) []Event {
	type acc struct {
		thr   int
		write bool
		path  string
	}
	byObj := map[int][]acc{}
	for _, e := range evs {
		if e.Kind == "Read" || e.Kind == "Write" {
			byObj[e.Obj] = append(byObj[e.Obj], acc{e.Thr, e.Kind == "Write", e.Path})
		}
	}
	var out []Event
	seen := map[string]bool{}
	for _, e := range evs {
		if e.Kind != "Read" && e.Kind != "Write" {
			out = append(out, e)
			continue
		}
		keep := false
		for _, o := range byObj[e.Obj] {
			if o.thr != e.Thr && (o.write || e.Kind == "Write") && pathsOverlap(o.path, e.Path) {
				keep = true
				break
			}
		}
		if !keep {
			continue
		}
		_ = seen
		out = append(out, e)
	}
	return out
}
