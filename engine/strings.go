package main

import (
	"fmt"
	"go/types"
	"math"

	"golang.org/x/tools/go/ssa"
)

func concreteFloat(f float64, w int) FloatV {
	if w == 32 {
		return FloatV{bits: bvConst(uint64(math.Float32bits(float32(f))), 32), w: 32}
	}
	return FloatV{bits: bvConst(math.Float64bits(f), 64), w: 64}
}

func floatFromBits(f FloatV) float64 {
	if f.w == 32 {
		return float64(math.Float32frombits(uint32(f.bits.v)))
	}
	return math.Float64frombits(f.bits.v)
}

// ---- string <-> bytes ---------------------------------------------------------

func (ex *Exec) bytesToString(st *State, sl SliceV) StrV {
	if sl.obj == 0 || (sl.len.isConst && sl.len.v == 0) {
		return StrV{}
	}
	c := st.container(sl).(BytesV)
	// fully concrete content => literal
	if sl.len.isConst && sl.off.isConst && sl.len.v <= 4096 {
		buf := make([]byte, sl.len.v)
		all := true
		for i := range buf {
			t := c.a.sel(u64(int64(sl.off.v) + int64(i)))
			if !t.isConst {
				all = false
				break
			}
			buf[i] = byte(t.v)
		}
		if all {
			return litStr(string(buf))
		}
	}
	return StrV{segs: []Seg{{op: "bytes", args: []Value{SliceSnap{a: c.a, off: sl.off, len: sl.len}}}}}
}

// stringToBytes materialises a rope made of literals and byte snapshots as a new array.
func (ex *Exec) stringToBytes(st *State, s StrV) Value {
	var a *ArrExpr = &ArrExpr{kind: 1, w: 8}
	pos := u64(0)
	for _, g := range s.segs {
		switch g.op {
		case "":
			for i := 0; i < len(g.lit); i++ {
				a = a.store(bvBin("bvadd", pos, u64(int64(i))), bvConst(uint64(g.lit[i]), 8))
			}
			pos = bvBin("bvadd", pos, u64(int64(len(g.lit))))
		case "bytes":
			sn := g.args[0].(SliceSnap)
			a = a.copyFrom(pos, sn.a, sn.off, sn.len)
			pos = bvBin("bvadd", pos, sn.len)
		default:
			// opaque segment: content unknown, length unknown
			n := ex.fresh("oplen", 64)
			ex.sol.Assert(bvCmp("bvult", n, u64(1<<20)))
			name := ex.sol.FreshName("OP")
			ex.sol.Declare(name, arrSort(8))
			a = a.copyFrom(pos, &ArrExpr{kind: 0, name: name, w: 8}, u64(0), n)
			pos = bvBin("bvadd", pos, n)
			ex.Notes["opaque string segment ‹"+g.op+"› materialised as unconstrained octets"]++
		}
	}
	id := st.alloc(types.NewArray(types.Typ[types.Uint8], 0), BytesV{a: a, n: pos, w: 8})
	return SliceV{obj: id, off: u64(0), len: pos, cap: pos}
}

func (ex *Exec) strLen(st *State, s StrV) *Term {
	n := u64(0)
	for _, g := range s.segs {
		switch g.op {
		case "":
			n = bvBin("bvadd", n, u64(int64(len(g.lit))))
		case "bytes":
			n = bvBin("bvadd", n, g.args[0].(SliceSnap).len)
		case "hex":
			n = bvBin("bvadd", n, bvBin("bvshl", g.args[0].(SliceSnap).len, u64(1)))
		default:
			// opaque rendering: its length is some value within the bounds the rendering
			// function guarantees; the same rendering has the same length (memoised per scope)
			lo, hi := uint64(0), uint64(1<<20)
			switch g.op {
			case "dec":
				lo, hi = 1, 20
			case "float":
				lo, hi = 1, 32
			case "ipstr":
				lo, hi = 2, 45
			case "boolstr":
				lo, hi = 4, 5
			case "jsonstr":
				lo = 2
			}
			key := "len:" + describe(StrV{segs: []Seg{g}})
			var l *Term
			if v, ok := ex.sol.ScopedGet(key); ok {
				l = v.(*Term)
			} else {
				l = ex.fresh("slen", 64)
				ex.sol.Assert(tAnd(bvCmp("bvuge", l, u64(int64(lo))), bvCmp("bvule", l, u64(int64(hi)))))
				ex.sol.ScopedPut(key, l)
			}
			n = bvBin("bvadd", n, l)
		}
	}
	return n
}

func (ex *Exec) strEq(a, b StrV) *Term {
	ca, oka := a.concrete()
	cb, okb := b.concrete()
	if oka && okb {
		return boolConst(ca == cb)
	}
	if describe(a) == describe(b) && sameSnaps(a, b) {
		return tTrue
	}
	// a slice of a bytes.Buffer read after the buffer was reset: its octets are now (a prefix
	// of) whatever has been written since, so it equals x only if both what it held and what
	// the buffer holds now equal x. (Used in assertions; the exact octets are a mix of the two
	// when the lengths differ, and every counterexample is replayed natively.)
	for i, s := range []StrV{a, b} {
		if len(s.segs) == 1 && s.segs[0].op == "stale-after-reset" {
			o := b
			if i == 1 {
				o = a
			}
			was, now := s.segs[0].args[0].(StrV), s.segs[0].args[1].(StrV)
			return tAnd(ex.strEq(was, o), ex.strEq(now, o))
		}
	}
	// congruence: same shape, opaque applications of the same function => equal iff
	// the arguments are equal (the formatting functions involved are injective for
	// arguments of the same type)
	if len(a.segs) == len(b.segs) && len(a.segs) > 0 && !oka && !okb {
		r := tTrue
		okAll := true
		for i := range a.segs {
			ga, gb := a.segs[i], b.segs[i]
			if ga.op != gb.op || len(ga.args) != len(gb.args) {
				okAll = false
				break
			}
			if ga.op == "" {
				if ga.lit != gb.lit {
					okAll = false
					break
				}
				continue
			}
			for j := range ga.args {
				e, ok := ex.argEq(ga.args[j], gb.args[j])
				if !ok {
					okAll = false
					break
				}
				r = tAnd(r, e)
			}
			if !okAll {
				break
			}
		}
		if okAll {
			return r
		}
	}
	// comparison with the empty string
	if (oka && ca == "") || (okb && cb == "") {
		o := a
		if oka {
			o = b
		}
		r := tTrue
		for _, g := range o.segs {
			switch g.op {
			case "":
				if g.lit != "" {
					return tFalse
				}
			case "bytes":
				r = tAnd(r, tEq(g.args[0].(SliceSnap).len, u64(0)))
			case "dec", "float", "ipstr", "mac", "errmsg", "sprintf":
				return tFalse // these never render as the empty string (ipstr of len 0 is "<nil>")
			default:
				fail("string comparison with opaque segment %s", g.op)
			}
		}
		return r
	}
	// literal vs. single byte snapshot, or snapshot vs. snapshot, with concrete small length
	one := func(s StrV) (SliceSnap, bool) {
		if len(s.segs) == 1 && s.segs[0].op == "bytes" {
			return s.segs[0].args[0].(SliceSnap), true
		}
		return SliceSnap{}, false
	}
	if sa, ok := one(a); ok && okb {
		return snapEqLit(sa, cb)
	}
	if sb, ok := one(b); ok && oka {
		return snapEqLit(sb, ca)
	}
	if sa, ok := one(a); ok {
		if sb, ok2 := one(b); ok2 && sa.len.isConst && sb.len.isConst {
			if sa.len.v != sb.len.v {
				return tFalse
			}
			if sa.len.v <= 64 {
				r := tTrue
				for i := uint64(0); i < sa.len.v; i++ {
					r = tAnd(r, tEq(sa.a.sel(bvBin("bvadd", sa.off, u64(int64(i)))), sb.a.sel(bvBin("bvadd", sb.off, u64(int64(i))))))
				}
				return r
			}
		}
	}
	if r, ok := ex.strEqBytes(a, b); ok {
		return r
	}
	fail("string comparison not decidable by the model: %s == %s", describe(a), describe(b))
	return nil
}

// argEq compares two arguments of an opaque string application.
func (ex *Exec) argEq(a, b Value) (*Term, bool) {
	switch x := a.(type) {
	case *Term:
		y, ok := b.(*Term)
		if !ok || x.w != y.w {
			return nil, false
		}
		return tEq(x, y), true
	case StrV:
		y, ok := b.(StrV)
		if !ok {
			return nil, false
		}
		return ex.strEq(x, y), true
	case FloatV:
		y, ok := b.(FloatV)
		if !ok || x.w != y.w {
			return nil, false
		}
		return tEq(x.bits, y.bits), true
	case IfaceV:
		y, ok := b.(IfaceV)
		if !ok {
			return nil, false
		}
		if x.t == nil || y.t == nil {
			return boolConst(x.t == nil && y.t == nil), true
		}
		if !types.Identical(x.t, y.t) {
			return tFalse, true
		}
		return ex.argEq(x.v, y.v)
	case SliceSnap:
		y, ok := b.(SliceSnap)
		if !ok {
			return nil, false
		}
		r := tEq(x.len, y.len)
		if x.len.isConst && y.len.isConst {
			if x.len.v != y.len.v {
				return tFalse, true
			}
			if x.len.v <= 64 {
				for i := uint64(0); i < x.len.v; i++ {
					r = tAnd(r, tEq(x.a.sel(bvBin("bvadd", x.off, u64(int64(i)))), y.a.sel(bvBin("bvadd", y.off, u64(int64(i))))))
				}
				return r, true
			}
		}
		// symbolic or long: Skolem index (sound where the comparison is asserted)
		j := ex.fresh("j", 64)
		ex.Notes["string equality over symbolic-length octets decided with a Skolem index (valid in assertions)"]++
		return tAnd(r, tImplies(bvCmp("bvult", j, x.len), tEq(x.a.sel(bvBin("bvadd", x.off, j)), y.a.sel(bvBin("bvadd", y.off, j))))), true
	}
	return nil, false
}

func sameSnaps(a, b StrV) bool {
	if len(a.segs) != len(b.segs) {
		return false
	}
	for i := range a.segs {
		if len(a.segs[i].args) != len(b.segs[i].args) {
			return false
		}
		for j := range a.segs[i].args {
			sa, ok1 := a.segs[i].args[j].(SliceSnap)
			sb, ok2 := b.segs[i].args[j].(SliceSnap)
			if ok1 != ok2 {
				return false
			}
			if ok1 && (sa.a != sb.a || sa.off.s != sb.off.s || sa.len.s != sb.len.s) {
				return false
			}
		}
	}
	return true
}

func snapEqLit(s SliceSnap, lit string) *Term {
	r := tEq(s.len, u64(int64(len(lit))))
	if r.isConst && r.v == 0 {
		return tFalse
	}
	for i := 0; i < len(lit); i++ {
		r = tAnd(r, tEq(s.a.sel(bvBin("bvadd", s.off, u64(int64(i)))), bvConst(uint64(lit[i]), 8)))
	}
	return r
}

// ---- bytes.Buffer as a rope ---------------------------------------------------

func (ex *Exec) bufRope(st *State, p PtrV) StrV {
	s := st.load(p).(StructV)
	if r, ok := s.f[0].(StrV); ok {
		return r
	}
	return StrV{}
}

func (ex *Exec) setBufRope(st *State, p PtrV, r StrV) {
	s := st.load(p).(StructV)
	nf := append([]Value(nil), s.f...)
	nf[0] = r
	st.store(p, StructV{f: nf})
}

// ropeOf is what reading the slice returned by Bytes() yields now: its own content as long as
// the buffer has only been appended to since; after a Reset the slice still has its old
// length but its octets are whatever was written since (modelled as an opaque "stale"
// segment that equals nothing else).
func (ex *Exec) ropeOf(st *State, r RopeRef) StrV {
	if ex.bufGen(st, r.buf) == r.gen {
		return r.snap
	}
	return StrV{segs: []Seg{{op: "stale-after-reset", args: []Value{r.snap, ex.bufRope(st, r.buf)}}}}
}

func (ex *Exec) bufGen(st *State, p PtrV) uint64 {
	s := st.load(p).(StructV)
	if len(s.f) > 1 {
		if t, ok := s.f[1].(*Term); ok && t.isConst {
			return t.v
		}
	}
	return 0
}

func bufRecv(ex *Exec, st *State, args []Value, at ssa.Instruction) (PtrV, bool) {
	p := args[0].(PtrV)
	if p.obj == 0 {
		ex.check(st, tTrue, "panic", "nil pointer dereference", at)
		ex.endPath(st, "panic")
		return p, false
	}
	return p, true
}

func init() {
	reg := func(name string, f intrinsic) { intrinsics[name] = f }
	nilErr := IfaceV{}
	reg("(*bytes.Buffer).WriteString", func(ex *Exec, st *State, fv FuncV, args []Value, res ssa.Value, at ssa.Instruction) bool {
		p, ok := bufRecv(ex, st, args, at)
		if !ok {
			return false
		}
		s := args[1].(StrV)
		ex.setBufRope(st, p, ex.bufRope(st, p).concat(s))
		setRes(st, res, TupleV{u64(0), nilErr}) // the count is not modelled (no caller in the repository uses it)
		return true
	})
	reg("(*bytes.Buffer).WriteByte", func(ex *Exec, st *State, fv FuncV, args []Value, res ssa.Value, at ssa.Instruction) bool {
		p, ok := bufRecv(ex, st, args, at)
		if !ok {
			return false
		}
		b := args[1].(*Term)
		var s StrV
		if b.isConst {
			s = litStr(string([]byte{byte(b.v)}))
		} else {
			a := (&ArrExpr{kind: 1, w: 8}).store(u64(0), b)
			s = StrV{segs: []Seg{{op: "bytes", args: []Value{SliceSnap{a: a, off: u64(0), len: u64(1)}}}}}
		}
		ex.setBufRope(st, p, ex.bufRope(st, p).concat(s))
		setRes(st, res, nilErr)
		return true
	})
	reg("(*bytes.Buffer).Write", func(ex *Exec, st *State, fv FuncV, args []Value, res ssa.Value, at ssa.Instruction) bool {
		p, ok := bufRecv(ex, st, args, at)
		if !ok {
			return false
		}
		var s StrV
		switch x := args[1].(type) {
		case SliceV:
			s = ex.bytesToString(st, x)
		case RopeRef:
			s = ex.ropeOf(st, x)
		default:
			fail("Buffer.Write of %T", x)
		}
		ex.setBufRope(st, p, ex.bufRope(st, p).concat(s))
		setRes(st, res, TupleV{u64(0), nilErr})
		return true
	})
	reg("(*bytes.Buffer).Reset", func(ex *Exec, st *State, fv FuncV, args []Value, res ssa.Value, at ssa.Instruction) bool {
		p, ok := bufRecv(ex, st, args, at)
		if !ok {
			return false
		}
		ex.setBufRope(st, p, StrV{})
		// new generation: slices handed out by Bytes() before now are stale
		if sv := st.load(p).(StructV); len(sv.f) > 1 {
			nf := append([]Value(nil), sv.f...)
			nf[1] = u64(int64(ex.bufGen(st, p) + 1))
			st.store(p, StructV{f: nf})
		}
		setRes(st, res, TupleV{})
		return true
	})
	reg("(*bytes.Buffer).Bytes", func(ex *Exec, st *State, fv FuncV, args []Value, res ssa.Value, at ssa.Instruction) bool {
		p, ok := bufRecv(ex, st, args, at)
		if !ok {
			return false
		}
		setRes(st, res, RopeRef{buf: p, n: -1, snap: ex.bufRope(st, p), gen: ex.bufGen(st, p)})
		return true
	})
	reg("(*bytes.Buffer).String", func(ex *Exec, st *State, fv FuncV, args []Value, res ssa.Value, at ssa.Instruction) bool {
		p := args[0].(PtrV)
		if p.obj == 0 {
			setRes(st, res, litStr("<nil>"))
			return true
		}
		setRes(st, res, ex.bufRope(st, p))
		return true
	})
	reg("(*bytes.Buffer).Len", func(ex *Exec, st *State, fv FuncV, args []Value, res ssa.Value, at ssa.Instruction) bool {
		p, ok := bufRecv(ex, st, args, at)
		if !ok {
			return false
		}
		setRes(st, res, ex.strLen(st, ex.bufRope(st, p)))
		return true
	})

	// strings.Builder: the same rope model (its copy check and unsafe string conversion are not executed)
	for _, m := range []string{"WriteString", "WriteByte", "Write", "Reset", "String", "Len"} {
		intrinsics["(*strings.Builder)."+m] = intrinsics["(*bytes.Buffer)."+m]
	}
	reg("(*strings.Builder).Grow", func(ex *Exec, st *State, fv FuncV, args []Value, res ssa.Value, at ssa.Instruction) bool {
		setRes(st, res, TupleV{})
		return true
	})
	reg("(*bytes.Buffer).Grow", func(ex *Exec, st *State, fv FuncV, args []Value, res ssa.Value, at ssa.Instruction) bool {
		setRes(st, res, TupleV{})
		return true
	})
	reg("internal/abi.NoEscape", func(ex *Exec, st *State, fv FuncV, args []Value, res ssa.Value, at ssa.Instruction) bool {
		setRes(st, res, args[0])
		return true
	})
	// strconv.Append*(dst, v, ...): dst's content followed by the rendering, as a rope-backed
	// byte slice (like the result of Buffer.Bytes on a private buffer)
	appendTo := func(ex *Exec, st *State, dst Value, tail StrV, res ssa.Value) {
		var head StrV
		switch x := dst.(type) {
		case SliceV:
			if !(x.len.isConst && x.len.v == 0) {
				head = ex.bytesToString(st, x)
			}
		case RopeRef:
			head = ex.ropeOf(st, x)
		default:
			fail("strconv.Append* onto %T", dst)
		}
		rope := head.concat(tail)
		id := st.alloc(nil, StructV{f: []Value{rope}})
		setRes(st, res, RopeRef{buf: PtrV{obj: id}, n: -1, snap: rope})
	}
	reg("strconv.AppendUint", func(ex *Exec, st *State, fv FuncV, args []Value, res ssa.Value, at ssa.Instruction) bool {
		appendTo(ex, st, args[0], decSeg(args[1].(*Term), false, args[2].(*Term)), res)
		return true
	})
	reg("strconv.AppendInt", func(ex *Exec, st *State, fv FuncV, args []Value, res ssa.Value, at ssa.Instruction) bool {
		appendTo(ex, st, args[0], decSeg(args[1].(*Term), true, args[2].(*Term)), res)
		return true
	})
	reg("strconv.AppendBool", func(ex *Exec, st *State, fv FuncV, args []Value, res ssa.Value, at ssa.Instruction) bool {
		b := args[1].(*Term)
		var tail StrV
		if b.isConst {
			tail = litStr(map[bool]string{true: "true", false: "false"}[b.v == 1])
		} else {
			tail = StrV{segs: []Seg{{op: "boolstr", args: []Value{b}}}}
		}
		appendTo(ex, st, args[0], tail, res)
		return true
	})
	reg("strconv.AppendFloat", func(ex *Exec, st *State, fv FuncV, args []Value, res ssa.Value, at ssa.Instruction) bool {
		f := args[1].(FloatV)
		appendTo(ex, st, args[0], StrV{segs: []Seg{{op: "float", args: []Value{f, args[2], args[3], args[4]}}}}, res)
		return true
	})

	// ---- strconv / hex / net formatting as opaque rope segments -----------------
	reg("strconv.FormatInt", func(ex *Exec, st *State, fv FuncV, args []Value, res ssa.Value, at ssa.Instruction) bool {
		setRes(st, res, decSeg(args[0].(*Term), true, args[1].(*Term)))
		return true
	})
	reg("strconv.FormatUint", func(ex *Exec, st *State, fv FuncV, args []Value, res ssa.Value, at ssa.Instruction) bool {
		setRes(st, res, decSeg(args[0].(*Term), false, args[1].(*Term)))
		return true
	})
	reg("strconv.Itoa", func(ex *Exec, st *State, fv FuncV, args []Value, res ssa.Value, at ssa.Instruction) bool {
		setRes(st, res, decSeg(args[0].(*Term), true, u64(10)))
		return true
	})
	reg("strconv.FormatFloat", func(ex *Exec, st *State, fv FuncV, args []Value, res ssa.Value, at ssa.Instruction) bool {
		f := args[0].(FloatV)
		setRes(st, res, StrV{segs: []Seg{{op: "float", args: []Value{f, args[1], args[2], args[3]}}}})
		return true
	})
	reg("strconv.FormatBool", func(ex *Exec, st *State, fv FuncV, args []Value, res ssa.Value, at ssa.Instruction) bool {
		b := args[0].(*Term)
		if b.isConst {
			if b.v == 1 {
				setRes(st, res, litStr("true"))
			} else {
				setRes(st, res, litStr("false"))
			}
			return true
		}
		setRes(st, res, StrV{segs: []Seg{{op: "boolstr", args: []Value{b}}}})
		return true
	})
	// hex.Encode(dst, src): dst[0:2n] becomes the hex text of src (n = len(src), any length);
	// a dst shorter than 2n panics (the real loop stores pairwise and fails at the first missing slot)
	reg("encoding/hex.Encode", func(ex *Exec, st *State, fv FuncV, args []Value, res ssa.Value, at ssa.Instruction) bool {
		d, okd := args[0].(SliceV)
		sv, oks := args[1].(SliceV)
		if !okd || !oks {
			fail("hex.Encode on %T / %T", args[0], args[1])
		}
		n2 := bvBin("bvshl", sv.len, u64(1))
		if !ex.check(st, bvCmp("bvult", d.len, n2), "panic", "index out of range (hex.Encode into a short destination)", at) {
			ex.endPath(st, "panic")
			return false
		}
		if sv.obj != 0 && d.obj != 0 {
			src := st.container(sv).(BytesV)
			dobj := st.heap[d.obj]
			cont := getPath(dobj.val, d.path).(BytesV)
			na := cont.a.hexFrom(d.off, src.a, sv.off, sv.len)
			ex.emitObj(st, sv.obj, false)
			ex.emitObj(st, d.obj, true)
			st.heap[d.obj] = &Obj{typ: dobj.typ, val: setPath(dobj.val, d.path, BytesV{a: na, n: cont.n, w: cont.w})}
		}
		setRes(st, res, n2)
		return true
	})
	reg("encoding/hex.EncodeToString", func(ex *Exec, st *State, fv FuncV, args []Value, res ssa.Value, at ssa.Instruction) bool {
		setRes(st, res, StrV{segs: []Seg{{op: "hex", args: []Value{ex.snapOf(st, args[0])}}}})
		return true
	})
	reg("(net.IP).String", func(ex *Exec, st *State, fv FuncV, args []Value, res ssa.Value, at ssa.Instruction) bool {
		setRes(st, res, StrV{segs: []Seg{{op: "ipstr", args: []Value{ex.snapOf(st, args[0])}}}})
		return true
	})
	reg("(net.HardwareAddr).String", func(ex *Exec, st *State, fv FuncV, args []Value, res ssa.Value, at ssa.Instruction) bool {
		setRes(st, res, StrV{segs: []Seg{{op: "mac", args: []Value{ex.snapOf(st, args[0])}}}})
		return true
	})
	reg("fmt.Sprintf", func(ex *Exec, st *State, fv FuncV, args []Value, res ssa.Value, at ssa.Instruction) bool {
		fa := ex.fmtArgs(st, args)
		// all-concrete call: evaluate by the host
		if f, ok := fa[0].(StrV); ok {
			if fs, okf := f.concrete(); okf {
				var hostArgs []interface{}
				allc := true
				for _, a := range fa[1:] {
					iv, isI := a.(IfaceV)
					if !isI || iv.t == nil {
						allc = false
						break
					}
					switch x := iv.v.(type) {
					case StrV:
						if c, okc := x.concrete(); okc {
							hostArgs = append(hostArgs, c)
						} else {
							allc = false
						}
					case *Term:
						if !x.isConst {
							allc = false
						} else if x.w == 0 {
							hostArgs = append(hostArgs, x.v == 1)
						} else if _, sg, _ := intInfo(iv.t); sg {
							hostArgs = append(hostArgs, sext(x.v, x.w))
						} else {
							hostArgs = append(hostArgs, x.v)
						}
					default:
						allc = false
					}
					if !allc {
						break
					}
				}
				if allc {
					setRes(st, res, litStr(fmt.Sprintf(fs, hostArgs...)))
					return true
				}
			}
		}
		setRes(st, res, StrV{segs: []Seg{{op: "sprintf", args: fa}}})
		return true
	})
	reg("fmt.Sprint", func(ex *Exec, st *State, fv FuncV, args []Value, res ssa.Value, at ssa.Instruction) bool {
		setRes(st, res, StrV{segs: []Seg{{op: "sprint", args: ex.fmtArgs(st, args)}}})
		return true
	})
}

func decSeg(t *Term, signed bool, base *Term) StrV {
	if !base.isConst {
		fail("FormatInt with symbolic base")
	}
	if t.isConst {
		if signed {
			return litStr(formatInt(sext(t.v, t.w), int(base.v)))
		}
		return litStr(formatUint(t.v, int(base.v)))
	}
	return StrV{segs: []Seg{{op: "dec", args: []Value{t, boolConst(signed), base}}}}
}

func formatInt(v int64, base int) string {
	if base == 10 {
		return fmt.Sprintf("%d", v)
	}
	if v < 0 {
		return "-" + formatUint(uint64(-v), base)
	}
	return formatUint(uint64(v), base)
}
func formatUint(v uint64, base int) string {
	switch base {
	case 10:
		return fmt.Sprintf("%d", v)
	case 16:
		return fmt.Sprintf("%x", v)
	case 2:
		return fmt.Sprintf("%b", v)
	case 8:
		return fmt.Sprintf("%o", v)
	}
	fail("FormatInt base %d", base)
	return ""
}

// fmtArgs flattens (format, []interface{}) into a value list, snapshotting byte slices.
func (ex *Exec) fmtArgs(st *State, args []Value) []Value {
	var out []Value
	for _, a := range args {
		switch x := a.(type) {
		case SliceV:
			if x.obj == 0 {
				continue
			}
			if av, ok := st.container(x).(ArrV); ok && x.off.isConst && x.len.isConst {
				for _, e := range av.e[x.off.v : x.off.v+x.len.v] {
					out = append(out, ex.snapValue(st, e))
				}
				continue
			}
			out = append(out, ex.snapValue(st, x))
		default:
			out = append(out, ex.snapValue(st, a))
		}
	}
	return out
}

func (ex *Exec) snapValue(st *State, v Value) Value {
	switch x := v.(type) {
	case IfaceV:
		if x.t == nil {
			return x
		}
		return IfaceV{t: x.t, v: ex.snapValue(st, x.v)}
	case SliceV:
		if x.obj == 0 {
			return x
		}
		if _, ok := st.container(x).(BytesV); ok {
			return ex.snapOf(st, x)
		}
	}
	return v
}
