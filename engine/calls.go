package main

import (
	"fmt"
	"go/types"
	"strings"

	"golang.org/x/tools/go/ssa"
)

func setRes(st *State, res ssa.Value, v Value) {
	if res != nil {
		st.top().env[res] = v
	}
}

func (ex *Exec) enter(st *State, fv FuncV, args []Value, result ssa.Value, at ssa.Instruction) bool {
	fn := fv.fn
	if len(fn.Blocks) == 0 && fn.Pkg != nil {
		fn.Pkg.Build()
	}
	if len(fn.Blocks) == 0 {
		if ex.lenient {
			if result != nil {
				setRes(st, result, ex.opaqueResult(fn, fn.Signature.Results()))
			}
			return true
		}
		fail("call of function without body or model: %s", fn.String())
	}
	if len(st.frames) > 200 {
		fail("call depth exceeded")
	}
	ex.Funcs[fn.String()] = true
	nf := &Frame{fn: fn, block: fn.Blocks[0], env: map[ssa.Value]Value{}, call: result, visits: map[int]int{}}
	if len(fv.bound) > 0 {
		args = append(append([]Value(nil), fv.bound...), args...)
	}
	if len(args) != len(fn.Params) {
		fail("arity mismatch calling %s: %d args, %d params", fn.String(), len(args), len(fn.Params))
	}
	for i, p := range fn.Params {
		nf.env[p] = args[i]
	}
	for i, f := range fn.FreeVars {
		nf.env[f] = fv.free[i]
	}
	st.frames = append(st.frames, nf)
	return true
}

func (ex *Exec) opaqueResult(fn *ssa.Function, res *types.Tuple) Value {
	mkv := func(t types.Type) Value {
		switch t.Underlying().(type) {
		case *types.Pointer, *types.Interface, *types.Signature, *types.Map, *types.Chan, *types.Slice:
			if _, isI := t.Underlying().(*types.Interface); isI {
				return IfaceV{}
			}
			return zeroValue(t)
		}
		return zeroValue(t)
	}
	switch res.Len() {
	case 0:
		return TupleV{}
	case 1:
		return mkv(res.At(0).Type())
	}
	tv := make(TupleV, res.Len())
	for i := range tv {
		tv[i] = mkv(res.At(i).Type())
	}
	return tv
}

func (ex *Exec) call(st *State, fr *Frame, cc *ssa.CallCommon, ins *ssa.Call) bool {
	args := make([]Value, 0, len(cc.Args)+1)
	if cc.IsInvoke() {
		recv := ex.eval(st, cc.Value).(IfaceV)
		if recv.t == nil {
			ex.check(st, tTrue, "panic", "nil interface method call", ins)
			ex.endPath(st, "panic")
			return false
		}
		if types.Identical(recv.t, ex.opaqueErrT) && cc.Method.Name() == "Error" {
			fr.env[ins] = StrV{segs: []Seg{{op: "errmsg", args: []Value{recv.v}}}}
			return true
		}
		m := ex.prog.LookupMethod(recv.t, cc.Method.Pkg(), cc.Method.Name())
		if m == nil {
			fail("no method %s on %s", cc.Method.Name(), recv.t)
		}
		args = append(args, recv.v)
		for _, a := range cc.Args {
			args = append(args, ex.eval(st, a))
		}
		return ex.dispatch(st, fr, FuncV{fn: m}, args, ins, ins)
	}
	for _, a := range cc.Args {
		args = append(args, ex.eval(st, a))
	}
	if b, ok := cc.Value.(*ssa.Builtin); ok {
		return ex.builtin(st, fr, b, cc, args, ins)
	}
	fv, ok := ex.eval(st, cc.Value).(FuncV)
	if !ok || fv.fn == nil {
		ex.check(st, tTrue, "panic", "call of nil function", ins)
		ex.endPath(st, "panic")
		return false
	}
	return ex.dispatch(st, fr, fv, args, ins, ins)
}

type intrinsic func(ex *Exec, st *State, fv FuncV, args []Value, res ssa.Value, at ssa.Instruction) bool

var intrinsics = map[string]intrinsic{}

func (ex *Exec) dispatch(st *State, fr *Frame, fv FuncV, args []Value, res ssa.Value, at ssa.Instruction) bool {
	if len(fv.bound) > 0 {
		args = append(append([]Value(nil), fv.bound...), args...)
		fv = FuncV{fn: fv.fn, free: fv.free}
	}
	name := fv.fn.String()
	short := fv.fn.Name()
	if strings.HasPrefix(short, "verif") && fv.fn.Pkg != nil && len(fv.fn.Blocks) == 0 {
		return ex.verifIntrinsic(st, fr, short, fv, args, res, at)
	}
	if rep, ok := ex.ld.repl[name]; ok && !strings.HasPrefix(fr.fn.Name(), "verifOrig") {
		ex.Notes["replaced "+name+" by "+rep.String()]++
		return ex.enter(st, FuncV{fn: rep}, args, res, at)
	}
	if in, ok := intrinsics[name]; ok {
		return in(ex, st, fv, args, res, at)
	}
	if fv.fn.Name() == "init" && fv.fn.Pkg != nil && !ex.ld.isRepoPkg(fv.fn.Pkg) && fv.fn.Signature.Recv() == nil {
		setRes(st, res, TupleV{})
		return true
	}
	return ex.enter(st, fv, args, res, at)
}

func (ex *Exec) verifIntrinsic(st *State, fr *Frame, short string, fv FuncV, args []Value, res ssa.Value, at ssa.Instruction) bool {
	switch {
	case strings.HasPrefix(short, "verifNondet"):
		setRes(st, res, ex.nondet(st, short, fv.fn, args))
		return true
	case short == "verifAssume":
		c := args[0].(*Term)
		if !ex.feasible(c) {
			ex.Infeasible++
			ex.endPath(st, "assume-false")
			return false
		}
		ex.sol.Assert(c)
		setRes(st, res, TupleV{})
		return true
	case short == "verifAssert":
		c := args[0].(*Term)
		msg := ""
		if len(args) > 1 {
			if s, ok := args[1].(StrV); ok {
				msg, _ = s.concrete()
			}
		}
		if !ex.check(st, tNot(c), "assert", msg, at) {
			ex.endPath(st, "assert")
			return false
		}
		setRes(st, res, TupleV{})
		return true
	case short == "verifAt":
		sl := args[0].(SliceV)
		_, sg, _ := intInfo(fv.fn.Signature.Params().At(1).Type())
		i := bvConv(args[1].(*Term), sg, 64)
		if sl.obj == 0 {
			setRes(st, res, bvConst(0, 8))
			return true
		}
		setRes(st, res, st.container(sl).(BytesV).a.sel(bvBin("bvadd", sl.off, i)))
		return true
	case short == "verifAll" || short == "verifAny":
		sl := args[0].(SliceV)
		r := boolConst(short == "verifAll")
		if sl.obj != 0 {
			for _, e := range st.container(sl).(ArrV).e[sl.off.v : sl.off.v+sl.len.v] {
				if short == "verifAll" {
					r = tAnd(r, e.(*Term))
				} else {
					r = tOr(r, e.(*Term))
				}
			}
		}
		setRes(st, res, r)
		return true
	case short == "verifReach":
		if s, ok := args[0].(StrV); ok {
			l, _ := s.concrete()
			ex.Reached[l]++
		}
		setRes(st, res, TupleV{})
		return true
	case short == "verifNote":
		if s, ok := args[0].(StrV); ok {
			l, _ := s.concrete()
			ex.Notes[l]++
		}
		setRes(st, res, TupleV{})
		return true
	case short == "verifKnown":
		s, _ := args[0].(StrV).concrete()
		setRes(st, res, boolConst(ex.known[s]))
		return true
	case short == "verifParam":
		s, _ := args[0].(StrV).concrete()
		v, ok := ex.params[s]
		if !ok {
			d := args[1].(*Term)
			if !d.isConst {
				fail("verifParam default must be constant")
			}
			v = int64(d.v)
			ex.params[s] = v
		}
		setRes(st, res, u64(v))
		return true
	case short == "verifSplit":
		n := args[0].(*Term)
		if !n.isConst {
			fail("verifSplit needs a constant")
		}
		if ex.splitIdx < 0 { // not split: behave like verifCase
			return ex.caseFork(st, int(n.v), res, "verifSplit")
		}
		if ex.splitIdx >= int(n.v) {
			ex.endPath(st, "assume-false")
			return false
		}
		st.nondet = append(st.nondet, nondetRec{fn: "verifSplit", kind: "const", w: 64, lenT: u64(int64(ex.splitIdx))})
		setRes(st, res, u64(int64(ex.splitIdx)))
		return true
	case short == "verifCase":
		n := args[0].(*Term)
		if !n.isConst {
			fail("verifCase needs a constant")
		}
		return ex.caseFork(st, int(n.v), res, "verifCase")
	case short == "verifBytesEq":
		setRes(st, res, ex.bytesEqForall(st, args[0], args[1]))
		return true
	case short == "verifProgress":
		ex.installProgress(st, args)
		setRes(st, res, TupleV{})
		return true
	case short == "verifLoopBound":
		sfx, _ := args[0].(StrV).concrete()
		b := args[1].(*Term)
		if !b.isConst {
			fail("verifLoopBound needs a constant")
		}
		if ex.loopBounds == nil {
			ex.loopBounds = map[string]int{}
		}
		ex.loopBounds[sfx] = int(b.v)
		setRes(st, res, TupleV{})
		return true
	case short == "verifAllocBound":
		ex.allocBound = args[0].(*Term)
		setRes(st, res, TupleV{})
		return true
	case short == "verifStrEq":
		setRes(st, res, ex.strEq(args[0].(StrV), args[1].(StrV)))
		return true
	}
	if f, ok := verifExtra[short]; ok {
		return f(ex, st, fv, args, res, at)
	}
	fail("unknown harness intrinsic %s", short)
	return false
}

var verifExtra = map[string]intrinsic{}

// caseFork forks n ways, binding res to 0..n-1 (recorded as a nondet for replay).
func (ex *Exec) caseFork(st *State, n int, res ssa.Value, what string) bool {
	for i := 0; i < n; i++ {
		s := st
		if i < n-1 {
			s = st.clone()
			ex.Forks++
		}
		ex.sol.Push()
		s.nondet = append(s.nondet, nondetRec{fn: what, kind: "const", w: 64, lenT: u64(int64(i))})
		setRes(s, res, u64(int64(i)))
		ex.run(s)
		ex.sol.Pop()
		if ex.stopped {
			break
		}
	}
	return false
}

func (ex *Exec) nondet(st *State, short string, fn *ssa.Function, args []Value) Value {
	res := fn.Signature.Results()
	if res.Len() != 1 {
		fail("nondet with %d results", res.Len())
	}
	t := res.At(0).Type()
	if w, _, ok := intInfo(t); ok {
		s := ex.fresh("n", w)
		st.nondet = append(st.nondet, nondetRec{fn: short, name: s.s, kind: "bv", w: w})
		return s
	}
	if isBool(t) {
		s := ex.fresh("b", 0)
		st.nondet = append(st.nondet, nondetRec{fn: short, name: s.s, kind: "bool"})
		return s
	}
	if sl, ok := t.Underlying().(*types.Slice); ok {
		if w, _, ok := intInfo(sl.Elem()); ok {
			name := ex.sol.FreshName("A")
			ex.sol.Declare(name, arrSort(w))
			_, sg, _ := intInfo(fn.Signature.Params().At(0).Type())
			n := bvConv(args[0].(*Term), sg, 64)
			c := n
			if len(args) > 1 {
				c = bvConv(args[1].(*Term), sg, 64)
			}
			id := st.alloc(types.NewArray(sl.Elem(), 0), BytesV{a: &ArrExpr{kind: 0, name: name, w: w}, n: c, w: w})
			st.nondet = append(st.nondet, nondetRec{fn: short, name: name, kind: "bytes", w: w, lenT: c})
			return SliceV{obj: id, off: u64(0), len: n, cap: c}
		}
	}
	fail("nondet of type %s", t)
	return nil
}

// bytesEqForall: len(a)==len(b) and, for a fresh index j, j<len => a[j]==b[j].
// Valid only in assertion position (the solver picks the worst j).
func (ex *Exec) bytesEqForall(st *State, a, b Value) *Term {
	sa := ex.snapOf(st, a)
	sb := ex.snapOf(st, b)
	j := ex.fresh("j", 64)
	in := bvCmp("bvult", j, sa.len)
	return tAnd(tEq(sa.len, sb.len), tImplies(in, tEq(sa.a.sel(bvBin("bvadd", sa.off, j)), sb.a.sel(bvBin("bvadd", sb.off, j)))))
}

func (ex *Exec) snapOf(st *State, v Value) SliceSnap {
	switch x := v.(type) {
	case SliceV:
		if x.obj == 0 {
			return SliceSnap{a: &ArrExpr{kind: 1, w: 8}, off: u64(0), len: u64(0)}
		}
		c := st.container(x).(BytesV)
		return SliceSnap{a: c.a, off: x.off, len: x.len}
	case SliceSnap:
		return x
	}
	fail("snapshot of %T", v)
	return SliceSnap{}
}

func (ex *Exec) builtin(st *State, fr *Frame, b *ssa.Builtin, cc *ssa.CallCommon, args []Value, ins *ssa.Call) bool {
	switch b.Name() {
	case "len":
		switch x := args[0].(type) {
		case SliceV:
			fr.env[ins] = x.len
		case StrV:
			fr.env[ins] = ex.strLen(st, x)
		case MapRef:
			if x.obj == 0 {
				fr.env[ins] = u64(0)
			} else {
				ex.emitMap(st, x.obj, "len")
				fr.env[ins] = u64(int64(len(st.heap[x.obj].val.(*MapV).entries)))
			}
		case ChanRef:
			if x.obj == 0 {
				fr.env[ins] = u64(0)
			} else {
				fr.env[ins] = u64(int64(len(st.heap[x.obj].val.(*ChanV).q)))
			}
		case RopeRef:
			fr.env[ins] = ex.strLen(st, ex.ropeOf(st, x))
		default:
			fail("len of %T", x)
		}
	case "cap":
		switch x := args[0].(type) {
		case SliceV:
			fr.env[ins] = x.cap
		case ChanRef:
			fr.env[ins] = u64(int64(st.heap[x.obj].val.(*ChanV).cap))
		default:
			fail("cap of %T", x)
		}
	case "copy":
		ex.builtinCopy(st, fr, args, ins)
	case "append":
		return ex.builtinAppend(st, fr, cc, args, ins)
	case "delete":
		return ex.mapDelete(st, fr, args, ins)
	case "close":
		if !ex.chanClose(st, args[0], ins) {
			return false
		}
		fr.env[ins] = TupleV{}
	case "print", "println":
		fr.env[ins] = TupleV{}
	case "min", "max":
		a, bb := args[0].(*Term), args[1].(*Term)
		_, sg, _ := intInfo(cc.Args[0].Type())
		op := "bvult"
		if sg {
			op = "bvslt"
		}
		lt := bvCmp(op, a, bb)
		if b.Name() == "min" {
			fr.env[ins] = tIte(lt, a, bb)
		} else {
			fr.env[ins] = tIte(lt, bb, a)
		}
	default:
		fail("builtin %s", b.Name())
	}
	return true
}

// ---- append / copy ----------------------------------------------------------

var sizeClasses = []int{0, 8, 16, 24, 32, 48, 64, 80, 96, 112, 128, 144, 160, 176, 192, 208, 224, 240, 256, 288, 320, 352, 384, 416, 448, 480, 512, 576, 640, 704, 768, 896, 1024, 1152, 1280, 1408, 1536, 1792, 2048, 2304, 2688, 3072, 3200, 3456, 4096, 4864, 5376, 6144, 6528, 6784, 6912, 8192, 9472, 9728, 10240, 10880, 12288, 13568, 14336, 16384, 18432, 19072, 20480, 21760, 24576, 27264, 28672, 32768}

func roundupsize(n int) int {
	for _, c := range sizeClasses {
		if c >= n {
			return c
		}
	}
	return (n + 8191) &^ 8191
}

// growCap mirrors runtime.growslice's capacity choice (go1.20+).
func growCap(oldCap, newLen, elemSize int) int {
	newcap := oldCap
	doublecap := newcap + newcap
	if newLen > doublecap {
		newcap = newLen
	} else {
		const threshold = 256
		if oldCap < threshold {
			newcap = doublecap
		} else {
			for 0 < newcap && newcap < newLen {
				newcap += (newcap + 3*threshold) / 4
			}
			if newcap <= 0 {
				newcap = newLen
			}
		}
	}
	if elemSize == 0 {
		return newcap
	}
	mem := roundupsize(newcap * elemSize)
	return mem / elemSize
}

func (ex *Exec) sizeofType(t types.Type) int {
	sz := types.SizesFor("gc", "amd64")
	return int(sz.Sizeof(t))
}

func (ex *Exec) builtinAppend(st *State, fr *Frame, cc *ssa.CallCommon, args []Value, ins *ssa.Call) bool {
	s := args[0].(SliceV)
	elem := cc.Args[0].Type().Underlying().(*types.Slice).Elem()
	w, _, isInt := intInfo(elem)
	// source
	var t SliceV
	var tsnap *SliceSnap
	switch x := args[1].(type) {
	case SliceV:
		t = x
	case StrV: // append([]byte, string...)
		b := ex.stringToBytes(st, x).(SliceV)
		t = b
	case RopeRef:
		// append([]byte{}, buf.Bytes()...): an independent copy that still carries the rope
		if (s.obj == 0 || (s.len.isConst && s.len.v == 0)) && isInt {
			rope := ex.ropeOf(st, x)
			id := st.alloc(nil, StructV{f: []Value{rope}})
			fr.env[ins] = RopeRef{buf: PtrV{obj: id}, n: -1, snap: rope}
			return true
		}
		b := ex.stringToBytes(st, ex.ropeOf(st, x)).(SliceV)
		t = b
	default:
		fail("append of %T", args[1])
	}
	ex.emitObj(st, t.obj, false)
	_ = tsnap
	if isInt {
		n := bvBin("bvadd", s.len, t.len)
		fits := bvCmp("bvule", n, s.cap)
		inPlace := func(st *State) {
			if t.obj != 0 && s.obj != 0 {
				src := st.container(t).(BytesV)
				dobj := st.heap[s.obj]
				cont := getPath(dobj.val, s.path).(BytesV)
				na := cont.a.copyFrom(bvBin("bvadd", s.off, s.len), src.a, t.off, t.len)
				ex.emitObj(st, s.obj, true)
				st.heap[s.obj] = &Obj{typ: dobj.typ, val: setPath(dobj.val, s.path, BytesV{a: na, n: cont.n, w: cont.w})}
			}
			st.top().env[ins] = SliceV{obj: s.obj, path: s.path, off: s.off, len: n, cap: s.cap}
		}
		grow := func(st *State) {
			var a *ArrExpr = &ArrExpr{kind: 1, w: w}
			if s.obj != 0 {
				sa := st.container(s).(BytesV)
				a = a.copyFrom(u64(0), sa.a, s.off, s.len)
			}
			if t.obj != 0 {
				ta := st.container(t).(BytesV)
				a = a.copyFrom(s.len, ta.a, t.off, t.len)
			}
			var c *Term
			if n.isConst && s.cap.isConst {
				c = u64(int64(growCap(int(s.cap.v), int(n.v), w/8)))
			} else {
				c = ex.fresh("cap", 64)
				ex.sol.Assert(tAnd(bvCmp("bvuge", c, n), bvCmp("bvult", c, u64(1<<41))))
			}
			id := st.alloc(types.NewArray(elem, 0), BytesV{a: a, n: c, w: w})
			st.top().env[ins] = SliceV{obj: id, off: u64(0), len: n, cap: c}
		}
		if s.obj == 0 && t.len.isConst && t.len.v == 0 {
			fr.env[ins] = s
			return true
		}
		if fits.isConst {
			if fits.v == 1 {
				inPlace(st)
			} else {
				grow(st)
			}
			return true
		}
		return ex.forkAlts(st, []alt{{fits, inPlace}, {tNot(fits), grow}})
	}
	if !s.len.isConst || !t.len.isConst || !s.off.isConst || !t.off.isConst || !s.cap.isConst {
		fail("append of composite slices with symbolic length")
	}
	var add []Value
	if t.obj != 0 {
		ta := st.container(t).(ArrV)
		add = ta.e[t.off.v : t.off.v+t.len.v]
	}
	newLen := int(s.len.v) + len(add)
	if len(add) == 0 {
		fr.env[ins] = s
		return true
	}
	if s.obj != 0 && uint64(newLen) <= s.cap.v {
		dobj := st.heap[s.obj]
		cont := getPath(dobj.val, s.path).(ArrV)
		ne := append([]Value(nil), cont.e...)
		copy(ne[s.off.v+s.len.v:], add)
		ex.emitObj(st, s.obj, true)
		if st.traceOn && st.isShared(s.obj) {
			for _, av := range add {
				ex.publish(st, av)
			}
		}
		st.heap[s.obj] = &Obj{typ: dobj.typ, val: setPath(dobj.val, s.path, ArrV{e: ne})}
		fr.env[ins] = SliceV{obj: s.obj, path: s.path, off: s.off, len: u64(int64(newLen)), cap: s.cap}
		return true
	}
	nc := growCap(int(s.cap.v), newLen, ex.sizeofType(elem))
	elems := make([]Value, nc)
	k := 0
	if s.obj != 0 {
		sa := st.container(s).(ArrV)
		k = copy(elems, sa.e[s.off.v:s.off.v+s.len.v])
	}
	k += copy(elems[k:], add)
	for ; k < nc; k++ {
		elems[k] = zeroValue(elem)
	}
	id := st.alloc(types.NewArray(elem, int64(nc)), ArrV{e: elems})
	fr.env[ins] = SliceV{obj: id, off: u64(0), len: u64(int64(newLen)), cap: u64(int64(nc))}
	return true
}

func (ex *Exec) builtinCopy(st *State, fr *Frame, args []Value, ins *ssa.Call) {
	d := args[0].(SliceV)
	var s SliceV
	switch x := args[1].(type) {
	case SliceV:
		s = x
	case StrV:
		s = ex.stringToBytes(st, x).(SliceV)
	default:
		fail("copy from %T", x)
	}
	n := tIte(bvCmp("bvult", d.len, s.len), d.len, s.len)
	if d.obj != 0 && s.obj != 0 {
		ex.emitObj(st, s.obj, false)
		dobj := st.heap[d.obj]
		switch cont := getPath(dobj.val, d.path).(type) {
		case BytesV:
			src := st.container(s).(BytesV)
			na := cont.a.copyFrom(d.off, src.a, s.off, n)
			ex.emitObj(st, d.obj, true)
			st.heap[d.obj] = &Obj{typ: dobj.typ, val: setPath(dobj.val, d.path, BytesV{a: na, n: cont.n, w: cont.w})}
		case ArrV:
			if !n.isConst || !d.off.isConst || !s.off.isConst {
				fail("copy of composite slices with symbolic bounds")
			}
			src := st.container(s).(ArrV)
			ne := append([]Value(nil), cont.e...)
			copy(ne[d.off.v:d.off.v+n.v], src.e[s.off.v:s.off.v+n.v])
			ex.emitObj(st, d.obj, true)
			if st.traceOn && st.isShared(d.obj) {
				for _, cv := range src.e[s.off.v : s.off.v+n.v] {
					ex.publish(st, cv)
				}
			}
			st.heap[d.obj] = &Obj{typ: dobj.typ, val: setPath(dobj.val, d.path, ArrV{e: ne})}
		default:
			fail("copy into %T", cont)
		}
	}
	fr.env[ins] = n
}

// ---- forking intrinsics -------------------------------------------------------

type alt struct {
	cond  *Term
	apply func(st *State)
}

// forkAlts explores every feasible alternative of an operation with several outcomes.
// It always returns false: the continuation of each alternative is run recursively.
func (ex *Exec) forkAlts(st *State, alts []alt) bool {
	var feas []alt
	if ex.noFork > 0 {
		// inside a synchronous call only a single feasible alternative is acceptable
		for _, a := range alts {
			if ex.feasible(a.cond) {
				feas = append(feas, a)
			}
		}
		if len(feas) != 1 {
			fail("fork inside a synchronous call")
		}
		feas[0].apply(st)
		return true
	}
	for _, a := range alts {
		if ex.feasible(a.cond) {
			feas = append(feas, a)
		}
	}
	if len(feas) == 0 {
		ex.Infeasible++
		ex.endPath(st, "infeasible")
		return false
	}
	for i, a := range feas {
		s := st
		if i < len(feas)-1 {
			s = st.clone()
		}
		ex.sol.Push()
		ex.sol.Assert(a.cond)
		a.apply(s)
		ex.run(s)
		ex.sol.Pop()
		if i < len(feas)-1 {
			ex.Forks++
		}
		if ex.stopped {
			break
		}
	}
	return false
}

func (ex *Exec) opaqueErr(id string) Value {
	return IfaceV{t: ex.opaqueErrT, v: OpaqueV{kind: "err", id: id}}
}

func init() {
	_ = fmt.Sprint
}
