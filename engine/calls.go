package main

import (
	"fmt"
	"go/types"
	"strings"

	"golang.org/x/tools/go/ssa"
)

func (ex *Exec) enter(st *State, fv FuncV, args []Value, result ssa.Value, at ssa.Instruction) bool {
	fn := fv.fn
	if len(fn.Blocks) == 0 {
		fail("call of function without body: %s", fn.String())
	}
	if len(st.frames) > 200 {
		fail("call depth exceeded")
	}
	nf := &Frame{fn: fn, block: fn.Blocks[0], env: map[ssa.Value]Value{}, call: result, visits: map[int]int{}}
	for i, p := range fn.Params {
		nf.env[p] = args[i]
	}
	for i, f := range fn.FreeVars {
		nf.env[f] = fv.free[i]
	}
	st.frames = append(st.frames, nf)
	return true
}

func (ex *Exec) call(st *State, fr *Frame, cc *ssa.CallCommon, ins *ssa.Call) bool {
	args := make([]Value, 0, len(cc.Args)+1)
	if cc.IsInvoke() {
		recv := ex.eval(st, cc.Value).(IfaceV)
		if recv.t == nil {
			ex.check(st, tTrue, "panic", "nil interface method call", ins)
			ex.endPath("panic")
			return false
		}
		if types.Identical(recv.t, ex.opaqueErrT) && cc.Method.Name() == "Error" {
			fr.env[ins] = StrV{segs: []Seg{{op: "errmsg", args: []Value{recv.v}}}}
			return true
		}
		m := ex.prog.LookupMethod(recv.t, cc.Method.Pkg(), cc.Method.Name())
		if m == nil {
			fail("no method %s on %s", cc.Method.Name(), recv.t)
		}
		args = append(args, recv.v)
		for _, a := range cc.Args {
			args = append(args, ex.eval(st, a))
		}
		return ex.dispatch(st, fr, FuncV{fn: m}, args, ins)
	}
	for _, a := range cc.Args {
		args = append(args, ex.eval(st, a))
	}
	if b, ok := cc.Value.(*ssa.Builtin); ok {
		return ex.builtin(st, fr, b, cc, args, ins)
	}
	fv, ok := ex.eval(st, cc.Value).(FuncV)
	if !ok || fv.fn == nil {
		fail("call of non-function value")
	}
	return ex.dispatch(st, fr, fv, args, ins)
}

func (ex *Exec) dispatch(st *State, fr *Frame, fv FuncV, args []Value, ins *ssa.Call) bool {
	name := fv.fn.String()
	short := fv.fn.Name()
	switch {
	case strings.HasPrefix(short, "verifNondet"):
		fr.env[ins] = ex.nondet(st, short, fv.fn, args)
		return true
	case short == "verifAssume":
		c := args[0].(*Term)
		if !ex.feasible(c) {
			ex.Infeasible++
			ex.endPath("assume-false")
			return false
		}
		ex.sol.Assert(ex.sol.Name(c))
		fr.env[ins] = TupleV{}
		return true
	case short == "verifAssert":
		c := args[0].(*Term)
		msg := ""
		if len(args) > 1 {
			if s, ok := args[1].(StrV); ok && len(s.segs) == 1 {
				msg = s.segs[0].lit
			}
		}
		if !ex.check(st, tNot(c), "assert", msg, ins) {
			ex.endPath("assert")
			return false
		}
		fr.env[ins] = TupleV{}
		return true
	case short == "verifAt":
		sl := args[0].(SliceV)
		_, sg, _ := intInfo(fv.fn.Signature.Params().At(1).Type())
		i := bvConv(args[1].(*Term), sg, 64)
		fr.env[ins] = st.container(sl).(BytesV).a.sel(bvBin("bvadd", sl.off, i))
		return true
	case short == "verifAll":
		sl := args[0].(SliceV)
		r := tTrue
		if sl.obj != 0 {
			for _, e := range st.container(sl).(ArrV).e[sl.off.v : sl.off.v+sl.len.v] {
				r = tAnd(r, e.(*Term))
			}
		}
		fr.env[ins] = r
		return true
	case short == "verifReach":
		if s, ok := args[0].(StrV); ok && len(s.segs) == 1 {
			st.reached[s.segs[0].lit] = true
		}
		fr.env[ins] = TupleV{}
		return true
	}
	switch name {
	case "encoding/binary.Read":
		return ex.binaryRead(st, fr, args, ins)
	case "fmt.Errorf", "errors.New":
		ex.nSym++
		fr.env[ins] = IfaceV{t: ex.opaqueErrT, v: OpaqueV{kind: "err", id: fmt.Sprintf("%s#%d", ex.where(st, ins), 0)}}
		return true
	case "(net.IP).String", "fmt.Sprintf", "(net.HardwareAddr).String":
		fr.env[ins] = StrV{segs: []Seg{{op: name, args: args}}}
		return true
	case "fmt.Printf", "fmt.Println", "(*log.Logger).Println", "(*log.Logger).Printf":
		fr.env[ins] = zeroValue(ins.Type())
		return true
	}
	return ex.enter(st, fv, args, ins, ins)
}

func (ex *Exec) nondet(st *State, short string, fn *ssa.Function, args []Value) Value {
	res := fn.Signature.Results()
	if res.Len() != 1 {
		fail("nondet with %d results", res.Len())
	}
	t := res.At(0).Type()
	if w, _, ok := intInfo(t); ok {
		s := ex.fresh("n", w)
		st.nondet = append(st.nondet, nondetRec{name: s.s, sort: sortOf(w), kind: "bv"})
		return s
	}
	if isBool(t) {
		s := ex.fresh("b", 0)
		st.nondet = append(st.nondet, nondetRec{name: s.s, sort: "Bool", kind: "bool"})
		return s
	}
	if sl, ok := t.Underlying().(*types.Slice); ok {
		if w, _, ok := intInfo(sl.Elem()); ok {
			ex.nSym++
			name := fmt.Sprintf("A!%d", ex.nSym)
			ex.sol.Declare(name, arrSort(w))
			_, sg, _ := intInfo(fn.Signature.Params().At(0).Type())
			n := bvConv(args[0].(*Term), sg, 64)
			id := st.alloc(types.NewArray(sl.Elem(), 0), BytesV{a: &ArrExpr{kind: 0, name: name, w: w}, n: n, w: w})
			st.nondet = append(st.nondet, nondetRec{name: name, kind: "bytes", lenT: n})
			return SliceV{obj: id, off: u64(0), len: n, cap: n}
		}
	}
	fail("nondet of type %s", t)
	return nil
}

func (ex *Exec) builtin(st *State, fr *Frame, b *ssa.Builtin, cc *ssa.CallCommon, args []Value, ins *ssa.Call) bool {
	switch b.Name() {
	case "len":
		switch x := args[0].(type) {
		case SliceV:
			fr.env[ins] = x.len
		case StrV:
			n := 0
			for _, s := range x.segs {
				if s.op != "" {
					fail("len of opaque string")
				}
				n += len(s.lit)
			}
			fr.env[ins] = u64(int64(n))
		default:
			fail("len of %T", x)
		}
	case "copy":
		ex.builtinCopy(st, fr, args, ins)
	case "cap":
		fr.env[ins] = args[0].(SliceV).cap
	case "append":
		s := args[0].(SliceV)
		t, ok := args[1].(SliceV)
		if !ok {
			fail("append of %T", args[1])
		}
		elem := cc.Args[0].Type().Underlying().(*types.Slice).Elem()
		if w, _, isInt := intInfo(elem); isInt {
			// always a fresh array in the spike (aliasing of byte appends not modelled)
			var a *ArrExpr = &ArrExpr{kind: 1, w: w}
			if s.obj != 0 {
				sa := st.container(s).(BytesV)
				a = &ArrExpr{kind: 3, w: w, base: a, src: sa.a, dOff: u64(0), sOff: s.off, cnt: s.len}
			}
			if t.obj != 0 {
				ta := st.container(t).(BytesV)
				a = &ArrExpr{kind: 3, w: w, base: a, src: ta.a, dOff: s.len, sOff: t.off, cnt: t.len}
			}
			n := bvBin("bvadd", s.len, t.len)
			id := st.alloc(types.NewArray(elem, 0), BytesV{a: a, n: n, w: w})
			fr.env[ins] = SliceV{obj: id, off: u64(0), len: n, cap: n}
			return true
		}
		if !s.len.isConst || !t.len.isConst || !s.off.isConst || !t.off.isConst {
			fail("append of composite slices with symbolic length")
		}
		var elems []Value
		if s.obj != 0 {
			sa := st.container(s).(ArrV)
			elems = append(elems, sa.e[s.off.v:s.off.v+s.len.v]...)
		}
		if t.obj != 0 {
			ta := st.container(t).(ArrV)
			elems = append(elems, ta.e[t.off.v:t.off.v+t.len.v]...)
		}
		elems = append([]Value(nil), elems...)
		id := st.alloc(types.NewArray(elem, int64(len(elems))), ArrV{e: elems})
		n := u64(int64(len(elems)))
		fr.env[ins] = SliceV{obj: id, off: u64(0), len: n, cap: n}
	default:
		fail("builtin %s", b.Name())
	}
	return true
}
