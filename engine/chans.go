package main

import (
	"go/types"

	"golang.org/x/tools/go/ssa"
)

// Channels are queues owned by the path's heap. Nothing runs concurrently inside the
// executor: a blocking operation that cannot proceed ends the path ("blocked"), which
// harnesses use as the end of a scenario (or avoid by closing the channel).

func zeroSafe(t types.Type) Value {
	if t == nil {
		return nil
	}
	if b, ok := t.(*types.Basic); ok && b.Kind() == types.Invalid {
		return nil
	}
	return zeroValue(t)
}

func (ex *Exec) chanOf(st *State, v Value) (*ChanV, int) {
	c := v.(ChanRef)
	if c.obj == 0 {
		return nil, 0
	}
	return st.heap[c.obj].val.(*ChanV), c.obj
}

func (st *State) setChan(obj int, c *ChanV) {
	st.heap[obj] = &Obj{typ: st.heap[obj].typ, val: c}
}

func (ex *Exec) chanSend(st *State, fr *Frame, ins *ssa.Send) bool {
	c, obj := ex.chanOf(st, ex.eval(st, ins.Chan))
	if c == nil {
		ex.Notes["blocked: send on nil channel"]++
		ex.endPath(st, "blocked")
		return false
	}
	if c.closed {
		ex.check(st, tTrue, "panic", "send on closed channel", ins)
		ex.endPath(st, "panic")
		return false
	}
	if len(c.q) >= c.cap {
		w, _ := ex.where(ins)
		ex.Notes["blocked: send on full channel at "+w]++
		ex.endPath(st, "blocked")
		return false
	}
	sentV := ex.eval(st, ins.X)
	if st.traceOn && st.isShared(obj) {
		ex.publish(st, sentV)
	}
	nq := append(append([]Value(nil), c.q...), sentV)
	st.setChan(obj, &ChanV{q: nq, cap: c.cap, closed: c.closed, sent: c.sent + 1})
	return true
}

func (ex *Exec) chanRecv(st *State, fr *Frame, ins *ssa.UnOp) bool {
	c, obj := ex.chanOf(st, ex.eval(st, ins.X))
	et := ins.X.Type().Underlying().(*types.Chan).Elem()
	set := func(v Value, ok bool) {
		if ins.CommaOk {
			fr.env[ins] = TupleV{v, boolConst(ok)}
		} else {
			fr.env[ins] = v
		}
	}
	if c == nil {
		ex.Notes["blocked: receive from nil channel"]++
		ex.endPath(st, "blocked")
		return false
	}
	if len(c.q) > 0 {
		v := c.q[0]
		st.setChan(obj, &ChanV{q: append([]Value(nil), c.q[1:]...), cap: c.cap, closed: c.closed, sent: c.sent})
		set(v, true)
		return true
	}
	if c.closed {
		set(zeroValue(et), false)
		return true
	}
	w, _ := ex.where(ins)
	ex.Notes["blocked: receive from empty channel at "+w]++
	ex.endPath(st, "blocked")
	return false
}

func (ex *Exec) chanClose(st *State, v Value, ins ssa.Instruction) bool {
	c, obj := ex.chanOf(st, v)
	if c == nil {
		ex.check(st, tTrue, "panic", "close of nil channel", ins)
		ex.endPath(st, "panic")
		return false
	}
	if c.closed {
		ex.check(st, tTrue, "panic", "close of closed channel", ins)
		ex.endPath(st, "panic")
		return false
	}
	st.setChan(obj, &ChanV{q: c.q, cap: c.cap, closed: true, sent: c.sent})
	return true
}

func (ex *Exec) selectInstr(st *State, fr *Frame, ins *ssa.Select) bool {
	type ready struct{ idx int }
	var rs []int
	for i, s := range ins.States {
		c, _ := ex.chanOf(st, ex.eval(st, s.Chan))
		if c == nil {
			continue
		}
		if s.Dir == types.RecvOnly {
			if len(c.q) > 0 || c.closed {
				rs = append(rs, i)
			}
		} else {
			if c.closed || len(c.q) < c.cap {
				rs = append(rs, i)
			}
		}
	}
	nRecv := 0
	for _, s := range ins.States {
		if s.Dir == types.RecvOnly {
			nRecv++
		}
	}
	tup := ins.Type().(*types.Tuple)
	build := func(st *State, chosen int) bool {
		res := make(TupleV, 2+nRecv)
		res[0] = u64(int64(chosen))
		res[1] = tFalse
		k := 2
		for i, s := range ins.States {
			if s.Dir != types.RecvOnly {
				continue
			}
			res[k] = zeroSafe(tup.At(k).Type())
			if i == chosen {
				c, obj := ex.chanOf(st, ex.eval(st, s.Chan))
				if len(c.q) > 0 {
					res[k] = c.q[0]
					res[1] = tTrue
					st.setChan(obj, &ChanV{q: append([]Value(nil), c.q[1:]...), cap: c.cap, closed: c.closed, sent: c.sent})
				}
			}
			k++
		}
		if chosen >= 0 && ins.States[chosen].Dir != types.RecvOnly {
			s := ins.States[chosen]
			c, obj := ex.chanOf(st, ex.eval(st, s.Chan))
			if c.closed {
				ex.check(st, tTrue, "panic", "send on closed channel", ins)
				ex.endPath(st, "panic")
				return false
			}
			nq := append(append([]Value(nil), c.q...), ex.eval(st, s.Send))
			st.setChan(obj, &ChanV{q: nq, cap: c.cap, closed: c.closed, sent: c.sent + 1})
		}
		st.top().env[ins] = res
		return true
	}
	switch len(rs) {
	case 0:
		if ins.Blocking {
			w, _ := ex.where(ins)
			ex.Notes["blocked: select with no ready case at "+w]++
			ex.endPath(st, "blocked")
			return false
		}
		return build(st, -1)
	case 1:
		return build(st, rs[0])
	}
	// several ready cases: the runtime picks any of them
	for i, idx := range rs {
		s := st
		if i < len(rs)-1 {
			s = st.clone()
			ex.Forks++
		}
		ex.sol.Push()
		if build(s, idx) {
			ex.run(s)
		}
		ex.sol.Pop()
	}
	return false
}
