package main

import (
	"strings"

	"golang.org/x/tools/go/ssa"
)

// progressMon: at every revisit of a loop header inside the named functions the
// measure (a harness closure, e.g. octets consumed so far) must have strictly
// increased since the previous visit of that header in the same frame.
type progressMon struct {
	measure FuncV
	fns     []string
}

func (ex *Exec) installProgress(st *State, args []Value) {
	m := &progressMon{measure: args[0].(FuncV)}
	if sl, ok := args[1].(SliceV); ok && sl.obj != 0 {
		for _, e := range st.container(sl).(ArrV).e[sl.off.v : sl.off.v+sl.len.v] {
			s, _ := e.(StrV).concrete()
			m.fns = append(m.fns, s)
		}
	}
	ex.progress = m
}

func (m *progressMon) watches(fn *ssa.Function) bool {
	name := fn.String()
	for _, f := range m.fns {
		if strings.HasSuffix(name, f) {
			return true
		}
	}
	return false
}

// callSync runs a (fork-free) function to completion on the current state.
func (ex *Exec) callSync(st *State, fv FuncV, args []Value, at ssa.Instruction) Value {
	depth := len(st.frames)
	if !ex.enter(st, fv, args, nil, at) {
		fail("synchronous call could not be entered")
	}
	st.top().sync = true
	delete(st.ghost, "$syncResult")
	ex.noFork++
	ex.run(st)
	ex.noFork--
	r, ok := st.ghost["$syncResult"]
	if !ok || len(st.frames) != depth {
		fail("synchronous call of %s did not return normally", fv.fn.Name())
	}
	delete(st.ghost, "$syncResult")
	return r
}

func isLoopHeader(b *ssa.BasicBlock) bool {
	// a block is treated as a loop header if one of its predecessors is dominated by it
	for _, p := range b.Preds {
		if b.Dominates(p) {
			return true
		}
	}
	return false
}

func (ex *Exec) progressCheck(st *State, fr *Frame, to *ssa.BasicBlock) bool {
	m := ex.progress
	if ex.noFork > 0 || !m.watches(fr.fn) || !isLoopHeader(to) {
		return true
	}
	cur := ex.callSync(st, m.measure, nil, to.Instrs[0]).(*Term)
	if fr.measures == nil {
		fr.measures = map[int]*Term{}
	}
	// measures at the two previous visits of this header (keys 2*idx, 2*idx+1)
	prev, had1 := fr.measures[2*to.Index]
	prev2, had2 := fr.measures[2*to.Index+1]
	fr.measures[2*to.Index] = cur
	if had1 {
		fr.measures[2*to.Index+1] = prev
	}
	if !had1 || !had2 {
		return true
	}
	// an iteration that consumed nothing was followed by another complete iteration that
	// consumed nothing either: nothing forces the loop to stop
	bad := tAnd(tNot(bvCmp("bvsgt", cur, prev)), tNot(bvCmp("bvsgt", prev, prev2)))
	if !ex.check(st, bad, "progress", "two consecutive loop iterations consumed no input (the loop need not terminate)", to.Instrs[0]) {
		ex.endPath(st, "progress")
		return false
	}
	return true
}
