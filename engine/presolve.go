package main

import "math"

// A tiny sound pre-solver: signed 64-bit interval facts on "base" terms, learned from
// asserted comparisons against constants, used to decide later comparisons of
// (base + const) against constants without calling the SMT solver.

type ival struct{ lo, hi int64 }

type Facts struct {
	m    map[string]ival
	undo [][]undoRec
	Hits int
	Miss int
}
type undoRec struct {
	k   string
	old ival
	had bool
}

func NewFacts() *Facts { return &Facts{m: map[string]ival{}, undo: [][]undoRec{nil}} }
func (f *Facts) Push() { f.undo = append(f.undo, nil) }
func (f *Facts) Pop() {
	u := f.undo[len(f.undo)-1]
	f.undo = f.undo[:len(f.undo)-1]
	for i := len(u) - 1; i >= 0; i-- {
		if u[i].had {
			f.m[u[i].k] = u[i].old
		} else {
			delete(f.m, u[i].k)
		}
	}
}

func (f *Facts) get(k string) ival {
	if v, ok := f.m[k]; ok {
		return v
	}
	return ival{math.MinInt64, math.MaxInt64}
}
func (f *Facts) set(k string, v ival) {
	old, had := f.m[k]
	f.undo[len(f.undo)-1] = append(f.undo[len(f.undo)-1], undoRec{k, old, had})
	f.m[k] = v
}

// linear view of a 64-bit term: base string + signed constant (base=="" => constant)
func linView(t *Term) (base string, c int64, ok bool) {
	if t.w != 64 {
		return "", 0, false
	}
	if t.isConst {
		return "", int64(t.v), true
	}
	if t.lin != nil {
		return t.lin.s, int64(t.linC), true
	}
	return t.s, 0, true
}

func addOK(a, b int64) (int64, bool) {
	s := a + b
	if (b > 0 && s < a) || (b < 0 && s > a) {
		return 0, false
	}
	return s, true
}

// range of term t as signed interval, if derivable without wrap-around
func (f *Facts) rng(t *Term) (ival, bool) {
	base, c, ok := linView(t)
	if !ok {
		return ival{}, false
	}
	if base == "" {
		return ival{c, c}, true
	}
	b := f.get(base)
	lo, ok1 := addOK(b.lo, c)
	hi, ok2 := addOK(b.hi, c)
	if !ok1 || !ok2 {
		return ival{}, false
	}
	return ival{lo, hi}, true
}

// Decide returns (value, true) when cond is decided by the facts.
func (f *Facts) Decide(cond *Term) (bool, bool) {
	r, ok := f.decide(cond)
	if ok {
		f.Hits++
	} else {
		f.Miss++
	}
	return r, ok
}

func (f *Facts) decide(cond *Term) (bool, bool) {
	if cond.isConst {
		return cond.v == 1, true
	}
	switch cond.op {
	case "not":
		v, ok := f.decide(cond.args[0])
		return !v, ok
	case "and":
		a, oka := f.decide(cond.args[0])
		b, okb := f.decide(cond.args[1])
		if (oka && !a) || (okb && !b) {
			return false, true
		}
		if oka && okb {
			return true, true
		}
	case "or":
		a, oka := f.decide(cond.args[0])
		b, okb := f.decide(cond.args[1])
		if (oka && a) || (okb && b) {
			return true, true
		}
		if oka && okb {
			return false, true
		}
	case "bvslt", "bvsle", "bvsgt", "bvsge", "bvult", "bvule", "bvugt", "bvuge", "=":
		x, okx := f.rng(cond.args[0])
		y, oky := f.rng(cond.args[1])
		if !okx || !oky {
			return false, false
		}
		op := cond.op
		if len(op) > 3 && op[2] == 'u' { // unsigned: only when both are known non-negative
			if x.lo < 0 || y.lo < 0 {
				return false, false
			}
			op = "bvs" + op[3:]
		}
		switch op {
		case "bvslt":
			if x.hi < y.lo {
				return true, true
			}
			if x.lo >= y.hi {
				return false, true
			}
		case "bvsle":
			if x.hi <= y.lo {
				return true, true
			}
			if x.lo > y.hi {
				return false, true
			}
		case "bvsgt":
			if x.lo > y.hi {
				return true, true
			}
			if x.hi <= y.lo {
				return false, true
			}
		case "bvsge":
			if x.lo >= y.hi {
				return true, true
			}
			if x.hi < y.lo {
				return false, true
			}
		case "=":
			if x.lo == x.hi && y.lo == y.hi && x.lo == y.lo {
				return true, true
			}
			if x.hi < y.lo || y.hi < x.lo {
				return false, true
			}
		}
	}
	return false, false
}

// Learn records what an asserted condition implies.
func (f *Facts) Learn(cond *Term, truth bool) {
	if cond.isConst {
		return
	}
	switch cond.op {
	case "not":
		f.Learn(cond.args[0], !truth)
		return
	case "and":
		if truth {
			f.Learn(cond.args[0], true)
			f.Learn(cond.args[1], true)
		}
		return
	case "or":
		if !truth {
			f.Learn(cond.args[0], false)
			f.Learn(cond.args[1], false)
		}
		return
	}
	op := cond.op
	switch op {
	case "bvslt", "bvsle", "bvsgt", "bvsge":
	case "bvult", "bvule", "bvugt", "bvuge":
		// usable only if both sides are already known non-negative
		x, okx := f.rng(cond.args[0])
		y, oky := f.rng(cond.args[1])
		if !okx || !oky || x.lo < 0 || y.lo < 0 {
			return
		}
		op = "bvs" + op[3:]
	case "=":
		if truth {
			f.Learn(&Term{op: "bvsle", args: cond.args, w: 0, s: "?"}, true)
			f.Learn(&Term{op: "bvsge", args: cond.args, w: 0, s: "?"}, true)
		}
		return
	default:
		return
	}
	if !truth { // negate
		op = map[string]string{"bvslt": "bvsge", "bvsle": "bvsgt", "bvsgt": "bvsle", "bvsge": "bvslt"}[op]
	}
	a, b := cond.args[0], cond.args[1]
	// normalise to  X (op) const
	if a.w != 64 {
		return
	}
	if a.isConst && !b.isConst {
		a, b = b, a
		op = map[string]string{"bvslt": "bvsgt", "bvsle": "bvsge", "bvsgt": "bvslt", "bvsge": "bvsle"}[op]
	}
	yr, oky := f.rng(b)
	base, c, ok := linView(a)
	if !ok || !oky || base == "" {
		return
	}
	cur := f.get(base)
	switch op {
	case "bvslt": // base + c < y  => base <= y.hi - 1 - c   (only valid if base+c does not wrap: require current range ok)
		if _, okr := f.rng(a); !okr {
			return
		}
		if v, ok := addOK(yr.hi-1, -c); ok && v < cur.hi {
			cur.hi = v
		}
	case "bvsle":
		if _, okr := f.rng(a); !okr {
			return
		}
		if v, ok := addOK(yr.hi, -c); ok && v < cur.hi {
			cur.hi = v
		}
	case "bvsgt":
		if _, okr := f.rng(a); !okr {
			return
		}
		if v, ok := addOK(yr.lo+1, -c); ok && v > cur.lo {
			cur.lo = v
		}
	case "bvsge":
		if _, okr := f.rng(a); !okr {
			return
		}
		if v, ok := addOK(yr.lo, -c); ok && v > cur.lo {
			cur.lo = v
		}
	}
	f.set(base, cur)
}
