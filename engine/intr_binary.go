package main

import (
	"go/types"
	"strings"

	"golang.org/x/tools/go/ssa"
)

// encoding/binary.Read(r, order, data) modelled directly on a *bytes.Reader:
// io.ReadFull semantics, big-endian decoding into *uint8/*uint16/*uint32/*uint64/
// *int*/[]byte/*[]byte. Anything else is unsupported (inconclusive), never guessed.
func init() {
	intrinsics["encoding/binary.Read"] = binaryRead
	// io.ReadFull(r, buf) on the same readers: the same model with (n, err) as result; on any
	// other reader the real io.ReadFull is executed
	intrinsics["io.ReadFull"] = func(ex *Exec, st *State, fv FuncV, args []Value, res ssa.Value, at ssa.Instruction) bool {
		rd, ok := args[0].(IfaceV)
		if ok && rd.t != nil {
			ts := rd.t.String()
			if ts == "*bytes.Reader" || strings.HasSuffix(ts, ".verifCountReader") {
				buf := args[1].(SliceV)
				bt := types.NewSlice(types.Typ[types.Uint8])
				return binaryReadImpl(ex, st, []Value{args[0], IfaceV{t: bigEndianT(ex), v: StructV{}}, IfaceV{t: bt, v: buf}}, res, at, true)
			}
		}
		return ex.enter(st, fv, args, res, at)
	}
}

// bigEndianT is the type of binary.BigEndian (needed to reuse the model for io.ReadFull).
func bigEndianT(ex *Exec) types.Type {
	for _, p := range ex.prog.AllPackages() {
		if p.Pkg.Path() == "encoding/binary" {
			if o := p.Pkg.Scope().Lookup("bigEndian"); o != nil {
				return o.Type()
			}
		}
	}
	fail("encoding/binary is not loaded")
	return nil
}

func binaryRead(ex *Exec, st *State, fv FuncV, args []Value, res ssa.Value, at ssa.Instruction) bool {
	return binaryReadImpl(ex, st, args, res, at, false)
}

func binaryReadImpl(ex *Exec, st *State, args []Value, res ssa.Value, at ssa.Instruction, withN bool) bool {
	rd, ok := args[0].(IfaceV)
	if !ok || rd.t == nil {
		ex.check(st, tTrue, "panic", "binary.Read on nil reader", at)
		ex.endPath(st, "panic")
		return false
	}
	// a harness wrapper that counts the octets delivered: struct{ R *bytes.Reader; N int } named
	// verifCountReader; binary.Read goes through io.ReadFull, i.e. through the wrapper's Read
	var counter *PtrV
	if pt, okp := rd.t.(*types.Pointer); okp {
		if nt, okn := pt.Elem().(*types.Named); okn && nt.Obj().Name() == "verifCountReader" {
			wp := rd.v.(PtrV)
			ws := st.load(wp).(StructV)
			inner, oki := ws.f[0].(PtrV)
			if !oki || inner.obj == 0 {
				fail("verifCountReader without a reader")
			}
			counter = &wp
			rd = IfaceV{t: types.NewPointer(nt.Underlying().(*types.Struct).Field(0).Type().(*types.Pointer).Elem()), v: inner}
		}
	}
	if rd.t.String() != "*bytes.Reader" {
		fail("binary.Read on reader of type %v", rd.t)
	}
	count := func(st *State, k *Term) {
		if counter == nil {
			return
		}
		ws := st.load(*counter).(StructV)
		nf := append([]Value(nil), ws.f...)
		nf[1] = bvBin("bvadd", nf[1].(*Term), k)
		st.store(*counter, StructV{f: nf})
	}
	if ord, ok := args[1].(IfaceV); !ok || ord.t == nil || ord.t.String() != "encoding/binary.bigEndian" {
		fail("binary.Read with a byte order other than BigEndian")
	}
	rp := rd.v.(PtrV)
	data := args[2].(IfaceV)
	if data.t == nil {
		fail("binary.Read into nil")
	}
	var n *Term
	var width int
	var dstSlice SliceV
	var target PtrV
	isSlice := false
	switch dt := data.t.Underlying().(type) {
	case *types.Pointer:
		target = data.v.(PtrV)
		if w, _, ok := intInfo(dt.Elem()); ok {
			width = w
			n = u64(int64(w / 8))
		} else if sl, ok := dt.Elem().Underlying().(*types.Slice); ok {
			if w, _, ok := intInfo(sl.Elem()); !ok || w != 8 {
				fail("binary.Read into %s", data.t)
			}
			if target.obj == 0 {
				fail("binary.Read into nil pointer")
			}
			dstSlice = st.load(target).(SliceV)
			n = dstSlice.len
			isSlice = true
		} else if ar, ok := dt.Elem().Underlying().(*types.Array); ok {
			// *[N]byte: the array's octets, like a slice over it
			if w, _, ok := intInfo(ar.Elem()); !ok || w != 8 {
				fail("binary.Read into %s", data.t)
			}
			if target.obj == 0 {
				fail("binary.Read into nil pointer")
			}
			dstSlice = SliceV{obj: target.obj, path: target.path, off: u64(0), len: u64(ar.Len()), cap: u64(ar.Len())}
			n = dstSlice.len
			isSlice = true
		} else {
			fail("binary.Read into %s", data.t)
		}
	case *types.Slice:
		if w, _, ok := intInfo(dt.Elem()); !ok || w != 8 {
			fail("binary.Read into %s", data.t)
		}
		dstSlice = data.v.(SliceV)
		n = dstSlice.len
		isSlice = true
	default:
		fail("binary.Read into %s", data.t)
	}
	robj := st.load(rp).(StructV)
	s := robj.f[0].(SliceV)
	pos := robj.f[1].(*Term)
	rem := bvBin("bvsub", s.len, pos)
	atEnd := bvCmp("bvsge", pos, s.len)
	short := tAnd(tNot(atEnd), bvCmp("bvult", rem, n))
	okc := tAnd(tNot(atEnd), tNot(bvCmp("bvult", rem, n)))
	zero := tEq(n, u64(0))
	setPos := func(st *State, np *Term) {
		o := st.load(rp).(StructV)
		nf := append([]Value(nil), o.f...)
		nf[1] = np
		if len(nf) > 2 {
			nf[2] = u64(-1) // prevRune
		}
		st.store(rp, StructV{f: nf})
	}
	ret := func(st *State, k *Term, e Value) {
		if withN {
			setRes(st, res, TupleV{k, e})
		} else {
			setRes(st, res, e)
		}
	}
	alts := []alt{
		{zero, func(st *State) { ret(st, u64(0), IfaceV{}) }},
		{tAnd(tNot(zero), atEnd), func(st *State) { ret(st, u64(0), ex.opaqueErr("io.EOF")) }},
		{tAnd(tNot(zero), short), func(st *State) {
			// io.ReadFull consumed what was there (and, for slices, stored it)
			if isSlice && dstSlice.obj != 0 {
				src := st.container(s).(BytesV)
				dobj := st.heap[dstSlice.obj]
				cont := getPath(dobj.val, dstSlice.path).(BytesV)
				na := cont.a.copyFrom(dstSlice.off, src.a, bvBin("bvadd", s.off, pos), rem)
				st.heap[dstSlice.obj] = &Obj{typ: dobj.typ, val: setPath(dobj.val, dstSlice.path, BytesV{a: na, n: cont.n, w: 8})}
			}
			setPos(st, s.len)
			count(st, rem)
			ret(st, rem, ex.opaqueErr("io.ErrUnexpectedEOF"))
		}},
		{tAnd(tNot(zero), okc), func(st *State) {
			src := st.container(s).(BytesV)
			base := bvBin("bvadd", s.off, pos)
			if !isSlice {
				var v *Term
				for i := 0; i < width/8; i++ {
					b := bvZext(src.a.sel(bvBin("bvadd", base, u64(int64(i)))), width)
					if v == nil {
						v = b
					} else {
						v = bvBin("bvor", bvBin("bvshl", v, bvConst(8, width)), b)
					}
				}
				if target.obj == 0 {
					fail("binary.Read into nil pointer")
				}
				st.store(target, v)
			} else if dstSlice.obj != 0 {
				dobj := st.heap[dstSlice.obj]
				cont := getPath(dobj.val, dstSlice.path).(BytesV)
				na := cont.a.copyFrom(dstSlice.off, src.a, base, n)
				st.heap[dstSlice.obj] = &Obj{typ: dobj.typ, val: setPath(dobj.val, dstSlice.path, BytesV{a: na, n: cont.n, w: 8})}
			}
			setPos(st, bvBin("bvadd", pos, n))
			count(st, n)
			ret(st, n, IfaceV{})
		}},
	}
	return ex.forkAlts(st, alts)
}
