package main

import (
	"go/types"

	"golang.org/x/tools/go/ssa"
)

type alt struct {
	cond  *Term
	apply func(st *State)
}

// forkAlts explores every feasible alternative of an intrinsic with several outcomes.
// It always returns false: the continuation of each alternative is run recursively.
func (ex *Exec) forkAlts(st *State, alts []alt) bool {
	var feas []alt
	for _, a := range alts {
		if ex.feasible(a.cond) {
			feas = append(feas, a)
		}
	}
	if len(feas) == 0 {
		ex.Infeasible++
		return false
	}
	for i, a := range feas {
		s := st
		if i < len(feas)-1 {
			s = st.clone()
		}
		ex.sol.Push()
		ex.sol.Assert(ex.sol.Name(a.cond))
		a.apply(s)
		ex.run(s)
		ex.sol.Pop()
		if i < len(feas)-1 {
			ex.Forks++
		}
	}
	return false
}

func (ex *Exec) opaqueErr(id string) Value {
	return IfaceV{t: ex.opaqueErrT, v: OpaqueV{kind: "err", id: id}}
}

// encoding/binary.Read(r, order, data) modelled directly on a *bytes.Reader:
// io.ReadFull semantics, big-endian decoding into *uint8/*uint16/*uint32/*uint64/*[]byte.
func (ex *Exec) binaryRead(st *State, fr *Frame, args []Value, ins *ssa.Call) bool {
	rd, ok := args[0].(IfaceV)
	if !ok || rd.t == nil || rd.t.String() != "*bytes.Reader" {
		fail("binary.Read on reader of type %v", rd.t)
	}
	rp := rd.v.(PtrV)
	data := args[2].(IfaceV)
	pt, isPtr := data.t.Underlying().(*types.Pointer)
	if !isPtr {
		fail("binary.Read into %s", data.t)
	}
	target := data.v.(PtrV)
	robj := st.load(rp).(StructV)
	s := robj.f[0].(SliceV)
	pos := robj.f[1].(*Term)
	var n *Term
	var width int
	var dstSlice SliceV
	if w, _, ok := intInfo(pt.Elem()); ok {
		width = w
		n = u64(int64(w / 8))
	} else if sl, ok := pt.Elem().Underlying().(*types.Slice); ok {
		if w, _, ok := intInfo(sl.Elem()); !ok || w != 8 {
			fail("binary.Read into %s", data.t)
		}
		dstSlice = st.load(target).(SliceV)
		n = dstSlice.len
	} else {
		fail("binary.Read into %s", data.t)
	}
	rem := bvBin("bvsub", s.len, pos)
	atEnd := bvCmp("bvsge", pos, s.len)
	short := tAnd(tNot(atEnd), bvCmp("bvult", rem, n))
	okc := tAnd(tNot(atEnd), tNot(bvCmp("bvult", rem, n)))
	zero := tEq(n, u64(0))
	setPos := func(st *State, np *Term) {
		o := st.load(rp).(StructV)
		nf := append([]Value(nil), o.f...)
		nf[1] = np
		st.store(rp, StructV{f: nf})
	}
	alts := []alt{
		{tAnd(zero, tTrue), func(st *State) { st.top().env[ins] = IfaceV{} }},
		{tAnd(tNot(zero), atEnd), func(st *State) { st.top().env[ins] = ex.opaqueErr("io.EOF") }},
		{tAnd(tNot(zero), short), func(st *State) {
			setPos(st, s.len)
			st.top().env[ins] = ex.opaqueErr("io.ErrUnexpectedEOF")
		}},
		{tAnd(tNot(zero), okc), func(st *State) {
			src := st.container(s).(BytesV)
			base := bvBin("bvadd", s.off, pos)
			if width > 0 {
				var v *Term
				for i := 0; i < width/8; i++ {
					b := bvZext(src.a.sel(bvBin("bvadd", base, u64(int64(i)))), width)
					if v == nil {
						v = b
					} else {
						v = bvBin("bvor", bvBin("bvshl", v, bvConst(8, width)), b)
					}
				}
				st.store(target, v)
			} else {
				dobj := st.heap[dstSlice.obj]
				cont := getPath(dobj.val, dstSlice.path).(BytesV)
				na := &ArrExpr{kind: 3, w: 8, base: cont.a, src: src.a, dOff: dstSlice.off, sOff: base, cnt: n}
				st.heap[dstSlice.obj] = &Obj{typ: dobj.typ, val: setPath(dobj.val, dstSlice.path, BytesV{a: na, n: cont.n, w: 8})}
			}
			setPos(st, bvBin("bvadd", pos, n))
			st.top().env[ins] = IfaceV{}
		}},
	}
	return ex.forkAlts(st, alts)
}

func (ex *Exec) builtinCopy(st *State, fr *Frame, args []Value, ins *ssa.Call) {
	d := args[0].(SliceV)
	var s SliceV
	switch x := args[1].(type) {
	case SliceV:
		s = x
	default:
		fail("copy from %T", x)
	}
	n := tIte(bvCmp("bvult", d.len, s.len), d.len, s.len)
	if d.obj != 0 && s.obj != 0 {
		dobj := st.heap[d.obj]
		cont, ok := getPath(dobj.val, d.path).(BytesV)
		if !ok {
			fail("copy of composite slices")
		}
		src := st.container(s).(BytesV)
		na := &ArrExpr{kind: 3, w: cont.w, base: cont.a, src: src.a, dOff: d.off, sOff: s.off, cnt: n}
		st.heap[d.obj] = &Obj{typ: dobj.typ, val: setPath(dobj.val, d.path, BytesV{a: na, n: cont.n, w: cont.w})}
	}
	fr.env[ins] = n
}
