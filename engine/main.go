package main

import (
	"encoding/json"
	"flag"
	"fmt"
	"os"
	"os/signal"
	"path/filepath"
	"sort"
	"strconv"
	"strings"
	"syscall"
	"time"
)

const verifRoot = "/verif"

// repoRoot is the repository the checks read (always /repo for the registered commands;
// VERIF_REPO lets the seeded-change regression run against a patched scratch copy) and
// evidenceDir where evidence and replay files go (VERIF_EVIDENCE for the same purpose).
func repoRoot() string {
	if v := os.Getenv("VERIF_REPO"); v != "" {
		return v
	}
	return "/repo"
}

func evidenceDir() string {
	if v := os.Getenv("VERIF_EVIDENCE"); v != "" {
		return v
	}
	return filepath.Join(verifRoot, "evidence")
}

// JobResult is what one executor process reports about one harness entry.
type JobResult struct {
	Pkg          string            `json:"pkg"`
	HarnessDir   string            `json:"harness_dir"`
	Entry        string            `json:"entry"`
	Split        int               `json:"split"`
	Paths        int               `json:"paths"`
	PathEnds     map[string]int    `json:"path_ends"`
	Instrs       int               `json:"instrs"`
	Forks        int               `json:"forks"`
	Queries      int               `json:"queries"`
	Sat          int               `json:"sat"`
	Unsat        int               `json:"unsat"`
	Unknown      int               `json:"unknown"`
	SolverErrs   int               `json:"solver_errors"`
	Restarts     int               `json:"solver_restarts,omitempty"`
	Retries      int               `json:"solver_retries,omitempty"`
	PreHits      int               `json:"presolver_hits"`
	SolverSecs   float64           `json:"solver_s"`
	MaxQuerySec  float64           `json:"max_query_s"`
	WallSecs     float64           `json:"wall_s"`
	LoadSecs     float64           `json:"load_s"`
	MaxVisit     int               `json:"max_loop_visits"`
	UnwindHit    int               `json:"unwind_hit"`
	Unwind       int               `json:"unwind"`
	Unsupported  map[string]int    `json:"unsupported"`
	Violations   []Violation       `json:"violations"`
	Reached      map[string]int    `json:"reached"`
	Funcs        []string          `json:"funcs"`
	Notes        map[string]int    `json:"notes"`
	Params       map[string]int64  `json:"params"`
	Known        []string          `json:"known"`
	Fatal        string            `json:"fatal,omitempty"`
	Stopped      bool              `json:"stopped,omitempty"`
	Replaced     map[string]string `json:"replaced,omitempty"`
	Samples      []interface{}     `json:"samples,omitempty"`
	SampleModels [][]NondetVal     `json:"sample_models,omitempty"`
}

func main() {
	if len(os.Args) < 2 {
		fmt.Fprintln(os.Stderr, "usage: gosmt run|check|replay|selftest ...")
		os.Exit(2)
	}
	switch os.Args[1] {
	case "run":
		os.Exit(cmdRun(os.Args[2:]))
	case "check":
		os.Exit(cmdCheck(os.Args[2:]))
	case "replay":
		os.Exit(cmdReplay(os.Args[2:]))
	case "selftest":
		os.Exit(cmdSelftest(os.Args[2:]))
	}
	fmt.Fprintln(os.Stderr, "unknown command", os.Args[1])
	os.Exit(2)
}

var profForks bool
var stopAfterViol int
var curExec *Exec

func init() {
	// a time limit enforced by the driver arrives as SIGTERM: stop exploring, report what was found
	ch := make(chan os.Signal, 1)
	signal.Notify(ch, syscall.SIGTERM, syscall.SIGINT)
	go func() {
		<-ch
		if e := curExec; e != nil {
			e.stopped = true
			e.interrupted = true
		}
		<-ch
		os.Exit(3)
	}()
}

type kvFlag map[string]int64

func (k kvFlag) String() string { return "" }
func (k kvFlag) Set(s string) error {
	i := strings.IndexByte(s, '=')
	if i < 0 {
		return fmt.Errorf("want k=v")
	}
	v, err := strconv.ParseInt(s[i+1:], 0, 64)
	if err != nil {
		return err
	}
	k[s[:i]] = v
	return nil
}

// cmdRun executes harness entries in this process and prints / writes the results.
func cmdSelftest(args []string) int {
	return selftest()
}

func cmdRun(args []string) int {
	fs := flag.NewFlagSet("run", flag.ExitOnError)
	repo := fs.String("repo", repoRoot(), "repository root")
	pkg := fs.String("pkg", "", "package directory relative to repo (e.g. ./reader)")
	hdir := fs.String("harness", "", "harness directory (absolute, or relative to /verif/harness)")
	entry := fs.String("entry", "", "comma separated harness function names")
	unwind := fs.Int("unwind", 40, "unwind bound per loop header per frame")
	z3 := fs.String("solver", "z3", "solver binary")
	logf := fs.String("smtlog", "", "write SMT script here")
	trace := fs.Bool("trace", false, "trace instructions")
	split := fs.Int("split", -1, "value returned by verifSplit (-1: fork)")
	known := fs.String("known", "", "comma separated ids of open known findings")
	jsonOut := fs.String("json", "", "write results as JSON here")
	seed := fs.Int("seed", 0, "solver random seed")
	qto := fs.Int("qtimeout", 20000, "per-query timeout in ms")
	maxPaths := fs.Int("maxpaths", 2000000, "stop after this many paths (reported as incomplete)")
	maxViol := fs.Int("maxviol", 0, "stop after this many distinct violations (0: explore everything)")
	forkProf := fs.Bool("forkprof", false, "print fork sites")
	fatalViol := fs.Bool("fatal-is-violation", false, "log.Fatal/os.Exit reachable counts as a violation")
	params := kvFlag{}
	fs.Var(params, "param", "k=v harness parameter (repeatable)")
	fs.Parse(args)

	hd := *hdir
	if !filepath.IsAbs(hd) {
		hd = filepath.Join(verifRoot, "harness", hd)
	}
	t0 := time.Now()
	ld, err := Load(*repo, *pkg, hd)
	var results []JobResult
	exit := 0
	if err != nil {
		for _, name := range strings.Split(*entry, ",") {
			results = append(results, JobResult{Pkg: *pkg, HarnessDir: hd, Entry: name, Split: *split, Fatal: "load: " + err.Error()})
		}
		fmt.Println("LOAD FAILED:", err)
		exit = 2
	} else {
		loadT := time.Since(t0)
		var log *os.File
		if *logf != "" {
			log, _ = os.Create(*logf)
			defer log.Close()
		}
		for _, name := range strings.Split(*entry, ",") {
			profForks = *forkProf
			stopAfterViol = *maxViol
			r := runEntry(ld, name, hd, *pkg, *unwind, *z3, *seed, *qto, log, *trace, *split, params, *known, *maxPaths, *fatalViol)
			r.LoadSecs = loadT.Seconds()
			results = append(results, r)
			printResult(r)
			if e := resultExit(r); e > exit {
				exit = e
			}
		}
	}
	if *jsonOut != "" {
		b, _ := json.MarshalIndent(results, "", " ")
		os.WriteFile(*jsonOut, b, 0644)
	}
	return exit
}

func resultExit(r JobResult) int {
	if r.Fatal != "" || len(r.Unsupported) > 0 || r.UnwindHit > 0 || r.Unknown > 0 || r.Stopped {
		return 2
	}
	if len(r.Violations) > 0 {
		return 1
	}
	return 0
}

func runEntry(ld *Loaded, name, hd, pkg string, unwind int, z3 string, seed, qto int, log *os.File, trace bool, split int, params kvFlag, known string, maxPaths int, fatalViol bool) (r JobResult) {
	r = JobResult{Pkg: pkg, HarnessDir: hd, Entry: name, Split: split, Unwind: unwind}
	fn := ld.main.Func(name)
	if fn == nil {
		r.Fatal = "no such harness function: " + name
		return
	}
	var sol *Solver
	var err error
	if log != nil {
		sol, err = NewSolver(z3, seed, qto, log)
	} else {
		sol, err = NewSolver(z3, seed, qto, nil)
	}
	if err != nil {
		r.Fatal = "solver: " + err.Error()
		return
	}
	curSolver = sol
	defer func() { curSolver = nil; sol.Close() }()
	ex := NewExec(ld, sol, unwind)
	ex.trace = trace
	ex.splitIdx = split
	ex.maxPaths = maxPaths
	ex.fatalIsViolation = fatalViol
	ex.stopAfterViol = stopAfterViol
	curExec = ex
	for k, v := range params {
		ex.params[k] = v
	}
	for _, k := range strings.Split(known, ",") {
		if k != "" {
			ex.known[k] = true
			r.Known = append(r.Known, k)
		}
	}
	if profForks {
		ex.ForkSites = map[string]int{}
		defer func() {
			type kv struct {
				k string
				v int
			}
			var kvs []kv
			for k, v := range ex.ForkSites {
				kvs = append(kvs, kv{k, v})
			}
			sort.Slice(kvs, func(i, j int) bool { return kvs[i].v > kvs[j].v })
			for i := 0; i < len(kvs) && i < 25; i++ {
				fmt.Printf("   fork x%d %s\n", kvs[i].v, kvs[i].k)
			}
		}()
	}
	t1 := time.Now()
	func() {
		defer func() {
			if rec := recover(); rec != nil {
				if e, ok := rec.(execErr); ok {
					r.Fatal = e.msg
					return
				}
				r.Fatal = fmt.Sprint("executor panic: ", rec)
			}
		}()
		ex.RunHarness(fn)
	}()
	r.WallSecs = time.Since(t1).Seconds()
	r.Paths, r.PathEnds, r.Instrs, r.Forks = ex.Paths, ex.PathEnds, ex.Instrs, ex.Forks
	r.Queries, r.Sat, r.Unsat, r.Unknown, r.SolverErrs, r.PreHits = sol.Queries, sol.Sat, sol.Unsat, sol.Unknown, sol.Errors, sol.PreHits
	r.Restarts, r.Retries = sol.Restarts, sol.Retries
	r.SolverSecs, r.MaxQuerySec = sol.Time.Seconds(), sol.MaxQ.Seconds()
	r.MaxVisit, r.UnwindHit = ex.MaxVisit, ex.UnwindHit
	r.Unsupported, r.Violations, r.Reached, r.Notes, r.Params = ex.Unsupp, ex.Violations, ex.Reached, ex.Notes, ex.params
	r.Stopped = ex.stopped
	for f := range ex.Funcs {
		r.Funcs = append(r.Funcs, f)
	}
	sort.Strings(r.Funcs)
	r.Replaced = ld.replSrc
	r.Samples, r.SampleModels = ex.PathSamples, ex.SampleModels
	if sol.Errors > 0 {
		if r.Unsupported == nil {
			r.Unsupported = map[string]int{}
		}
		r.Unsupported["solver reported an error: "+sol.LastErr] = sol.Errors
	}
	return
}

func printResult(r JobResult) {
	fmt.Printf("== %s[%d]: paths=%d %v forks=%d instrs=%d maxVisit=%d unwindHit=%d queries=%d (sat %d unsat %d unknown %d, presolved %d) solver=%.2fs wall=%.2fs\n",
		r.Entry, r.Split, r.Paths, r.PathEnds, r.Forks, r.Instrs, r.MaxVisit, r.UnwindHit, r.Queries, r.Sat, r.Unsat, r.Unknown, r.PreHits, r.SolverSecs, r.WallSecs)
	if r.Fatal != "" {
		fmt.Println("   FATAL:", r.Fatal)
	}
	var ks []string
	for k := range r.Unsupported {
		ks = append(ks, k)
	}
	sort.Strings(ks)
	for _, k := range ks {
		fmt.Printf("   UNSUPPORTED x%d: %s\n", r.Unsupported[k], k)
	}
	for _, v := range r.Violations {
		fmt.Printf("   VIOLATION %s: %s at %s\n      site: %s\n      model: %s\n", v.Kind, v.Msg, v.Where, v.Site, modelString(v.Model))
	}
	ks = ks[:0]
	for k := range r.Notes {
		ks = append(ks, k)
	}
	sort.Strings(ks)
	for _, k := range ks {
		fmt.Printf("   note x%d: %s\n", r.Notes[k], k)
	}
	fmt.Printf("   reached: %v\n", r.Reached)
}

func modelString(m []NondetVal) string {
	var parts []string
	for _, n := range m {
		switch n.Kind {
		case "bytes":
			b := n.Bytes
			if len(b) > 160 {
				b = b[:160] + "…"
			}
			parts = append(parts, fmt.Sprintf("%s(len %d)=%s", n.Fn, n.Len, b))
		default:
			parts = append(parts, fmt.Sprintf("%s=%d", n.Fn, n.Val))
		}
	}
	return strings.Join(parts, " ")
}
