package main

import (
	"flag"
	"fmt"
	"os"
	"path/filepath"
	"sort"
	"strings"
	"time"

	"golang.org/x/tools/go/packages"
	"golang.org/x/tools/go/ssa"
	"golang.org/x/tools/go/ssa/ssautil"
)

func main() {
	repo := flag.String("repo", "/repo", "repository root")
	pkg := flag.String("pkg", "", "package pattern relative to repo (e.g. ./reader)")
	hdir := flag.String("harness", "", "directory with harness .go files to overlay into the package dir")
	entry := flag.String("entry", "", "comma separated harness function names")
	unwind := flag.Int("unwind", 40, "unwind bound per loop header per frame")
	z3 := flag.String("solver", "z3", "solver binary")
	logf := flag.String("smtlog", "", "write SMT script here")
	trace := flag.Bool("trace", false, "trace instructions")
	flag.Parse()

	t0 := time.Now()
	overlay := map[string][]byte{}
	pkgDir := filepath.Join(*repo, *pkg)
	files, _ := filepath.Glob(filepath.Join(*hdir, "*.go"))
	for _, f := range files {
		b, err := os.ReadFile(f)
		if err != nil {
			panic(err)
		}
		overlay[filepath.Join(pkgDir, "zz_verif_"+filepath.Base(f))] = b
	}
	cfg := &packages.Config{Mode: packages.LoadAllSyntax, Dir: *repo, Overlay: overlay, Env: append(os.Environ(), "GOFLAGS=-mod=mod", "GOPROXY=off", "GOSUMDB=off", "GOTOOLCHAIN=local")}
	pkgs, err := packages.Load(cfg, *pkg)
	if err != nil {
		panic(err)
	}
	if packages.PrintErrors(pkgs) > 0 {
		os.Exit(2)
	}
	prog, spkgs := ssautil.AllPackages(pkgs, ssa.InstantiateGenerics)
	prog.Build()
	loadT := time.Since(t0)

	var log *os.File
	if *logf != "" {
		log, _ = os.Create(*logf)
		defer log.Close()
	}
	exit := 0
	for _, name := range strings.Split(*entry, ",") {
		fn := spkgs[0].Func(name)
		if fn == nil {
			fmt.Println("no such harness:", name)
			os.Exit(2)
		}
		var sol *Solver
		if log != nil {
			sol, err = NewSolver(*z3, 0, log)
		} else {
			sol, err = NewSolver(*z3, 0, nil)
		}
		if err != nil {
			panic(err)
		}
		sol.Prof = map[string]int{}
		ex := NewExec(prog, sol, *unwind)
		ex.trace = *trace
		t1 := time.Now()
		ex.RunHarness(fn)
		el := time.Since(t1)
		fmt.Printf("== %s: paths=%d forks=%d instrs=%d infeasible=%d unwindHit=%d maxVisit=%d queries=%d (sat %d unsat %d unknown %d) solver=%.2fs wall=%.2fs load=%.2fs\n",
			name, ex.Paths, ex.Forks, ex.Instrs, ex.Infeasible, ex.UnwindHit, ex.MaxVisit, sol.Queries, sol.Sat, sol.Unsat, sol.Unknown, sol.Time.Seconds(), el.Seconds(), loadT.Seconds())
		var ks []string
		for k := range ex.Unsupp {
			ks = append(ks, k)
		}
		sort.Strings(ks)
		for _, k := range ks {
			fmt.Printf("   UNSUPPORTED x%d: %s\n", ex.Unsupp[k], k)
			exit = 2
		}
		for _, v := range ex.Violations {
			fmt.Printf("   VIOLATION %s: %s at %s\n      model: %v\n", v.Kind, v.Msg, v.Where, v.Model)
			if exit == 0 {
				exit = 1
			}
		}
		type kv struct{k string; v int}
		var kvs []kv
		for k, v := range sol.Prof { kvs = append(kvs, kv{k, v}) }
		sort.Slice(kvs, func(i, j int) bool { return kvs[i].v > kvs[j].v })
		for i := 0; i < len(kvs) && i < 25; i++ { fmt.Printf("   Q x%d %s\n", kvs[i].v, kvs[i].k) }
		sol.Close()
	}
	os.Exit(exit)
}
