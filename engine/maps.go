package main

import (
	"fmt"
	"go/types"
	"strings"

	"golang.org/x/tools/go/ssa"
)

// keyEq compares two map keys (Go ==) giving a term.
func (ex *Exec) keyEq(st *State, a, b Value) *Term { return ex.valueEq(st, a, b) }

func isConcreteValue(v Value) bool {
	switch x := v.(type) {
	case *Term:
		return x.isConst
	case StrV:
		_, ok := x.concrete()
		return ok
	case StructV:
		for _, f := range x.f {
			if !isConcreteValue(f) {
				return false
			}
		}
		return true
	case ArrV:
		for _, f := range x.e {
			if !isConcreteValue(f) {
				return false
			}
		}
		return true
	case PtrV, OpaqueV, MapRef, ChanRef:
		return true
	case IfaceV:
		return x.t == nil || isConcreteValue(x.v)
	}
	return false
}

func (ex *Exec) mapOf(st *State, v Value) (*MapV, int) {
	m := v.(MapRef)
	if m.obj == 0 {
		return nil, 0
	}
	return st.heap[m.obj].val.(*MapV), m.obj
}

func (ex *Exec) mapUpdate(st *State, fr *Frame, ins *ssa.MapUpdate) bool {
	mv, obj := ex.mapOf(st, ex.eval(st, ins.Map))
	if mv == nil {
		ex.check(st, tTrue, "panic", "assignment to entry in nil map", ins)
		ex.endPath(st, "panic")
		return false
	}
	k := ex.eval(st, ins.Key)
	v := ex.eval(st, ins.Value)
	ex.emitMap(st, obj, "write")
	if st.traceOn && st.isShared(obj) {
		ex.publish(st, k)
		ex.publish(st, v)
	}
	// decide which existing entry (if any) has this key
	type cand struct {
		i  int
		eq *Term
	}
	var cands []cand
	none := tTrue
	for i, e := range mv.entries {
		eq := ex.keyEq(st, k, e.k)
		if eq.isConst {
			if eq.v == 1 {
				ne := append([]MapEntry(nil), mv.entries...)
				ne[i] = MapEntry{k: e.k, v: v}
				st.heap[obj] = &Obj{typ: st.heap[obj].typ, val: &MapV{kt: mv.kt, vt: mv.vt, entries: ne}}
				return true
			}
			continue
		}
		cands = append(cands, cand{i, eq})
		none = tAnd(none, tNot(eq))
	}
	add := func(st *State) {
		cur := st.heap[obj].val.(*MapV)
		ne := append(append([]MapEntry(nil), cur.entries...), MapEntry{k: k, v: v})
		st.heap[obj] = &Obj{typ: st.heap[obj].typ, val: &MapV{kt: cur.kt, vt: cur.vt, entries: ne}}
	}
	if len(cands) == 0 {
		add(st)
		return true
	}
	alts := []alt{{none, add}}
	for _, c := range cands {
		c := c
		alts = append(alts, alt{c.eq, func(st *State) {
			cur := st.heap[obj].val.(*MapV)
			ne := append([]MapEntry(nil), cur.entries...)
			ne[c.i] = MapEntry{k: ne[c.i].k, v: v}
			st.heap[obj] = &Obj{typ: st.heap[obj].typ, val: &MapV{kt: cur.kt, vt: cur.vt, entries: ne}}
		}})
	}
	return ex.forkAlts(st, alts)
}

func (ex *Exec) mapDelete(st *State, fr *Frame, args []Value, ins *ssa.Call) bool {
	mv, obj := ex.mapOf(st, args[0])
	fr.env[ins] = TupleV{}
	if mv == nil {
		return true
	}
	k := args[1]
	ex.emitMap(st, obj, "write")
	var alts []alt
	none := tTrue
	for i, e := range mv.entries {
		i := i
		eq := ex.keyEq(st, k, e.k)
		if eq.isConst && eq.v == 0 {
			continue
		}
		none = tAnd(none, tNot(eq))
		alts = append(alts, alt{eq, func(st *State) {
			cur := st.heap[obj].val.(*MapV)
			ne := append([]MapEntry(nil), cur.entries[:i]...)
			ne = append(ne, cur.entries[i+1:]...)
			st.heap[obj] = &Obj{typ: st.heap[obj].typ, val: &MapV{kt: cur.kt, vt: cur.vt, entries: ne}}
		}})
	}
	if len(alts) == 0 {
		return true
	}
	alts = append(alts, alt{none, func(st *State) {}})
	return ex.forkAlts(st, alts)
}

// tableFuncs: a read-only map with many concrete keys and scalar-struct values is
// turned into SMT functions once per solver scope.
type tableFuncs struct {
	ok     string   // name of Bool function
	fields []string // per struct field: function name ("" if not scalar)
	widths []int
	nkey   int
}

func flattenKey(v Value) ([]*Term, bool) {
	switch x := v.(type) {
	case *Term:
		return []*Term{x}, true
	case StructV:
		var out []*Term
		for _, f := range x.f {
			t, ok := f.(*Term)
			if !ok {
				return nil, false
			}
			out = append(out, t)
		}
		return out, true
	}
	return nil, false
}

func (ex *Exec) tableFor(mv *MapV) *tableFuncs {
	if v, ok := ex.sol.ScopedGet(mv); ok {
		return v.(*tableFuncs)
	}
	if len(mv.entries) < 12 {
		return nil
	}
	k0, ok := flattenKey(mv.entries[0].k)
	if !ok {
		return nil
	}
	for _, e := range mv.entries {
		if !isConcreteValue(e.k) {
			return nil
		}
	}
	// value: struct of scalars/strings or a scalar
	var nf int
	var widths []int
	scalarVal := false
	switch v0 := mv.entries[0].v.(type) {
	case StructV:
		nf = len(v0.f)
		for _, f := range v0.f {
			if t, ok := f.(*Term); ok {
				widths = append(widths, t.w)
			} else {
				widths = append(widths, -1)
			}
		}
	case *Term:
		nf, widths, scalarVal = 1, []int{v0.w}, true
	default:
		return nil
	}
	tf := &tableFuncs{nkey: len(k0), widths: widths}
	var params, pnames []string
	for i, t := range k0 {
		pnames = append(pnames, fmt.Sprintf("k%d", i))
		params = append(params, fmt.Sprintf("(k%d %s)", i, sortOf(t.w)))
	}
	keyCond := func(e MapEntry) string {
		ks, _ := flattenKey(e.k)
		var cs []string
		for i, t := range ks {
			cs = append(cs, fmt.Sprintf("(= %s %s)", pnames[i], t.s))
		}
		if len(cs) == 1 {
			return cs[0]
		}
		return "(and " + strings.Join(cs, " ") + ")"
	}
	id := ex.sol.FreshName("tbl")
	// ok function
	var sb strings.Builder
	sb.WriteString("(or false")
	for _, e := range mv.entries {
		sb.WriteString(" " + keyCond(e))
	}
	sb.WriteString(")")
	tf.ok = id + "_ok"
	ex.sol.send(fmt.Sprintf("(define-fun %s (%s) Bool %s)", tf.ok, strings.Join(params, " "), sb.String()))
	for fi := 0; fi < nf; fi++ {
		if widths[fi] < 0 {
			tf.fields = append(tf.fields, "")
			continue
		}
		var body strings.Builder
		closeN := 0
		for _, e := range mv.entries {
			var t *Term
			if scalarVal {
				t = e.v.(*Term)
			} else {
				t = e.v.(StructV).f[fi].(*Term)
			}
			if !t.isConst {
				return nil
			}
			body.WriteString("(ite " + keyCond(e) + " " + t.s + " ")
			closeN++
		}
		body.WriteString(bvConstOrFalse(widths[fi]))
		body.WriteString(strings.Repeat(")", closeN))
		fname := fmt.Sprintf("%s_f%d", id, fi)
		ex.sol.send(fmt.Sprintf("(define-fun %s (%s) %s %s)", fname, strings.Join(params, " "), sortOf(widths[fi]), body.String()))
		tf.fields = append(tf.fields, fname)
	}
	ex.sol.ScopedPut(mv, tf)
	return tf
}

func bvConstOrFalse(w int) string {
	if w == 0 {
		return "false"
	}
	return bvConst(0, w).s
}

func (ex *Exec) lookup(st *State, fr *Frame, ins *ssa.Lookup) bool {
	x := ex.eval(st, ins.X)
	if s, isStr := x.(StrV); isStr { // string indexing
		i := ex.eval(st, ins.Index).(*Term)
		c, ok := s.concrete()
		if !ok || !i.isConst {
			fail("index into non-literal string")
		}
		if i.v >= uint64(len(c)) {
			ex.check(st, tTrue, "panic", "index out of range", ins)
			ex.endPath(st, "panic")
			return false
		}
		fr.env[ins] = bvConst(uint64(c[i.v]), 8)
		return true
	}
	mv, obj := ex.mapOf(st, x)
	k := ex.eval(st, ins.Index)
	vt := ins.X.Type().Underlying().(*types.Map).Elem()
	set := func(st *State, v Value, ok *Term) {
		if ins.CommaOk {
			st.top().env[ins] = TupleV{v, ok}
		} else {
			st.top().env[ins] = v
		}
	}
	if mv == nil {
		set(st, zeroValue(vt), tFalse)
		return true
	}
	ex.emitMap(st, obj, "read")
	// concrete fast path
	if isConcreteValue(k) {
		allConc := true
		for _, e := range mv.entries {
			eq := ex.keyEq(st, k, e.k)
			if eq.isConst {
				if eq.v == 1 {
					set(st, e.v, tTrue)
					return true
				}
				continue
			}
			allConc = false
		}
		if allConc {
			set(st, zeroValue(vt), tFalse)
			return true
		}
	}
	// table mode
	if ks, ok := flattenKey(k); ok {
		if tf := ex.tableFor(mv); tf != nil && tf.nkey == len(ks) {
			var as []string
			for _, t := range ks {
				as = append(as, t.s)
			}
			app := func(f string, w int) *Term { return rawTerm("("+f+" "+strings.Join(as, " ")+")", w) }
			okT := app(tf.ok, 0)
			var val Value
			if sv, isS := mv.entries[0].v.(StructV); isS {
				out := StructV{f: make([]Value, len(sv.f))}
				for i := range sv.f {
					if tf.fields[i] != "" {
						out.f[i] = app(tf.fields[i], tf.widths[i])
					} else if _, isStr := sv.f[i].(StrV); isStr {
						out.f[i] = StrV{segs: []Seg{{op: "mapfield", args: []Value{k}}}}
					} else {
						fail("table lookup: field %d of unsupported kind %T", i, sv.f[i])
					}
				}
				val = out
			} else {
				val = app(tf.fields[0], tf.widths[0])
			}
			set(st, val, okT)
			return true
		}
	}
	// general case: fork over the entries the key may equal
	var alts []alt
	none := tTrue
	for _, e := range mv.entries {
		e := e
		eq := ex.keyEq(st, k, e.k)
		if eq.isConst && eq.v == 0 {
			continue
		}
		none = tAnd(none, tNot(eq))
		alts = append(alts, alt{eq, func(st *State) { set(st, e.v, tTrue) }})
	}
	alts = append(alts, alt{none, func(st *State) { set(st, zeroValue(vt), tFalse) }})
	if len(alts) == 1 {
		set(st, zeroValue(vt), tFalse)
		return true
	}
	return ex.forkAlts(st, alts)
}

// ---- range over maps / strings ------------------------------------------------

type rangeIter struct {
	entries []MapEntry
	str     string
	isStr   bool
	pos     *int
}

func (ex *Exec) rangeStart(st *State, ins *ssa.Range) Value {
	x := ex.eval(st, ins.X)
	switch xv := x.(type) {
	case MapRef:
		p := 0
		if xv.obj == 0 {
			return &rangeIter{pos: &p}
		}
		ex.emitMap(st, xv.obj, "iter")
		mv := st.heap[xv.obj].val.(*MapV)
		return &rangeIter{entries: mv.entries, pos: &p}
	case StrV:
		s, ok := xv.concrete()
		if !ok {
			fail("range over non-literal string")
		}
		p := 0
		return &rangeIter{str: s, isStr: true, pos: &p}
	}
	fail("range over %T", x)
	return nil
}

func (ex *Exec) rangeNext(st *State, fr *Frame, ins *ssa.Next) Value {
	it := ex.eval(st, ins.Iter).(*rangeIter)
	// iterators are mutated in place; a fork clones frames' envs shallowly, so keep the
	// position in a fresh iterator stored back into this frame
	p := *it.pos
	ni := &rangeIter{entries: it.entries, str: it.str, isStr: it.isStr, pos: new(int)}
	if it.isStr {
		rs := []rune(it.str)
		_ = rs
		if p >= len(it.str) {
			*ni.pos = p
			fr.env[ins.Iter] = ni
			return TupleV{tFalse, u64(0), bvConst(0, 32)}
		}
		// decode one rune
		r, size := decodeRune(it.str[p:])
		*ni.pos = p + size
		fr.env[ins.Iter] = ni
		return TupleV{tTrue, u64(int64(p)), bvConst(uint64(r), 32)}
	}
	if p >= len(it.entries) {
		*ni.pos = p
		fr.env[ins.Iter] = ni
		tup := ins.Type().(*types.Tuple)
		return TupleV{tFalse, zeroSafe(tup.At(1).Type()), zeroSafe(tup.At(2).Type())}
	}
	*ni.pos = p + 1
	fr.env[ins.Iter] = ni
	return TupleV{tTrue, it.entries[p].k, it.entries[p].v}
}

func decodeRune(s string) (rune, int) {
	for i, r := range s {
		_ = i
		n := len(string(r))
		if r == 0xFFFD {
			n = 1
		}
		return r, n
	}
	return 0, 0
}
