package main

import (
	"fmt"
	"os"
	"go/types"
	"reflect"
	"strings"

	"golang.org/x/tools/go/ssa"
)

// JSON over ropes (C05). The output of the hand-written encoders is a rope: literal text
// interleaved with opaque applications (decimal rendering of a term, float rendering,
// address/hex text, raw octets of a field). The grammar is checked on the concrete
// skeleton; every opaque piece raises a leaf obligation that is a solver term:
//   dec(t)            a JSON number                          (contract of strconv)
//   float(bits)       a JSON number iff the exponent bits are not all ones
//   bytes(snapshot)   only inside a string; safe iff no octet is '"', '\' or < 0x20
//   ipstr/mac/hex     only inside a string; safe                (contract of net / hex)
//   jsonstr(rope)     a complete, correctly escaped JSON string (contract of encoding/json)
//   boolstr(t)        the literal true or false

type jItem struct {
	ch  byte // literal character (seg == nil)
	seg *Seg
}

type jNode struct {
	kind  string // object array string number true false null
	keys  []string
	vals  []*jNode
	parts StrV   // string: content as a rope (unescaped literal parts, opaque parts)
	num   *Seg   // number given by an opaque segment
	lit   string // number given literally
	esc   bool   // string contained escapes in literal text (content not reconstructed)
	digs  []*Term // number written digit by digit (octet terms, most significant first)
	neg   bool    // ... preceded by a literal minus sign
}

type jParser struct {
	ex    *Exec
	items []jItem
	pos   int
	cond  *Term // conjunction of leaf obligations
	err   string
}

func ropeItems(s StrV) []jItem {
	var out []jItem
	for i := range s.segs {
		g := &s.segs[i]
		if g.op == "" {
			for j := 0; j < len(g.lit); j++ {
				out = append(out, jItem{ch: g.lit[j]})
			}
		} else {
			out = append(out, jItem{seg: g})
		}
	}
	return out
}

func (p *jParser) fail(f string, a ...interface{}) *jNode {
	if p.err == "" {
		p.err = fmt.Sprintf(f, a...) + fmt.Sprintf(" (at item %d)", p.pos)
	}
	return nil
}

func (p *jParser) ws() {
	for p.pos < len(p.items) && p.items[p.pos].seg == nil && strings.IndexByte(" \t\r\n", p.items[p.pos].ch) >= 0 {
		p.pos++
	}
}

func (p *jParser) peek() (byte, *Seg, bool) {
	if p.pos >= len(p.items) {
		return 0, nil, false
	}
	it := p.items[p.pos]
	return it.ch, it.seg, true
}

func (p *jParser) value() *jNode {
	p.ws()
	ch, seg, ok := p.peek()
	if !ok {
		return p.fail("unexpected end of document: a value is missing")
	}
	if seg != nil {
		switch seg.op {
		case "bytes":
			return p.digits()
		case "dec":
			p.pos++
			return &jNode{kind: "number", num: seg}
		case "float":
			p.pos++
			f := seg.args[0].(FloatV)
			// finite iff exponent field is not all ones
			var expAllOnes *Term
			if f.w == 32 {
				expAllOnes = tEq(bvExtract(30, 23, f.bits), bvConst(0xff, 8))
			} else {
				expAllOnes = tEq(bvExtract(62, 52, f.bits), bvConst(0x7ff, 11))
			}
			p.cond = tAnd(p.cond, tNot(expAllOnes))
			return &jNode{kind: "number", num: seg}
		case "jsonstr":
			p.pos++
			return &jNode{kind: "string", parts: seg.args[0].(StrV)}
		case "boolstr":
			p.pos++
			return &jNode{kind: "true", num: seg}
		}
		return p.fail("a value position holds ‹%s›, which is not a JSON value", seg.op)
	}
	switch {
	case ch == '{':
		p.pos++
		n := &jNode{kind: "object"}
		p.ws()
		if c, s, ok := p.peek(); ok && s == nil && c == '}' {
			p.pos++
			return n
		}
		for {
			p.ws()
			k := p.str()
			if k == nil {
				return nil
			}
			key, _ := k.parts.concrete()
			p.ws()
			if c, s, ok := p.peek(); !ok || s != nil || c != ':' {
				return p.fail("':' expected after object key %q", key)
			}
			p.pos++
			v := p.value()
			if v == nil {
				return nil
			}
			n.keys = append(n.keys, key)
			n.vals = append(n.vals, v)
			p.ws()
			c, s, ok := p.peek()
			if !ok || s != nil {
				return p.fail("',' or '}' expected in object")
			}
			p.pos++
			if c == '}' {
				return n
			}
			if c != ',' {
				return p.fail("',' or '}' expected in object, found %q", c)
			}
		}
	case ch == '[':
		p.pos++
		n := &jNode{kind: "array"}
		p.ws()
		if c, s, ok := p.peek(); ok && s == nil && c == ']' {
			p.pos++
			return n
		}
		for {
			v := p.value()
			if v == nil {
				return nil
			}
			n.vals = append(n.vals, v)
			p.ws()
			c, s, ok := p.peek()
			if !ok || s != nil {
				return p.fail("',' or ']' expected in array")
			}
			p.pos++
			if c == ']' {
				return n
			}
			if c != ',' {
				return p.fail("',' or ']' expected in array, found %q", c)
			}
		}
	case ch == '"':
		return p.str()
	case ch == '-' || (ch >= '0' && ch <= '9'):
		start := p.pos
		var sb strings.Builder
		for p.pos < len(p.items) && p.items[p.pos].seg == nil && strings.IndexByte("+-0123456789.eE", p.items[p.pos].ch) >= 0 {
			sb.WriteByte(p.items[p.pos].ch)
			p.pos++
		}
		if p.pos < len(p.items) && p.items[p.pos].seg != nil && p.items[p.pos].seg.op == "bytes" {
			// literal digits followed by computed ones
			p.pos = start
			return p.digits()
		}
		if !validJSONNumber(sb.String()) {
			p.pos = start
			return p.fail("malformed number %q", sb.String())
		}
		return &jNode{kind: "number", lit: sb.String()}
	}
	for _, w := range []string{"true", "false", "null"} {
		if p.matchWord(w) {
			return &jNode{kind: w}
		}
	}
	return p.fail("unexpected character %q where a value is expected", ch)
}

// digits parses an integer written octet by octet (computed digits, possibly mixed with
// literal ones): every octet must be a digit and there is no leading zero.
func (p *jParser) digits() *jNode {
	n := &jNode{kind: "number"}
	if c, s, ok := p.peek(); ok && s == nil && c == '-' {
		n.neg = true
		p.pos++
	}
	for p.pos < len(p.items) {
		it := p.items[p.pos]
		if it.seg == nil {
			if it.ch < '0' || it.ch > '9' {
				break
			}
			n.digs = append(n.digs, bvConst(uint64(it.ch), 8))
			p.pos++
			continue
		}
		if it.seg.op != "bytes" {
			break
		}
		bs, ok := snapBytes(it.seg.args[0].(SliceSnap))
		if !ok {
			return p.fail("a number is written from octets of symbolic length")
		}
		n.digs = append(n.digs, bs...)
		p.pos++
	}
	if len(n.digs) == 0 || len(n.digs) > 20 {
		return p.fail("a number of %d digits", len(n.digs))
	}
	for _, d := range n.digs {
		p.cond = tAnd(p.cond, tAnd(bvCmp("bvuge", d, bvConst('0', 8)), bvCmp("bvule", d, bvConst('9', 8))))
	}
	if len(n.digs) > 1 {
		p.cond = tAnd(p.cond, tNot(tEq(n.digs[0], bvConst('0', 8))))
	}
	return n
}

func (p *jParser) matchWord(w string) bool {
	if p.pos+len(w) > len(p.items) {
		return false
	}
	for i := 0; i < len(w); i++ {
		it := p.items[p.pos+i]
		if it.seg != nil || it.ch != w[i] {
			return false
		}
	}
	p.pos += len(w)
	return true
}

func validJSONNumber(s string) bool {
	i := 0
	n := len(s)
	if i < n && s[i] == '-' {
		i++
	}
	if i >= n {
		return false
	}
	if s[i] == '0' {
		i++
	} else if s[i] >= '1' && s[i] <= '9' {
		for i < n && s[i] >= '0' && s[i] <= '9' {
			i++
		}
	} else {
		return false
	}
	if i < n && s[i] == '.' {
		i++
		if i >= n || s[i] < '0' || s[i] > '9' {
			return false
		}
		for i < n && s[i] >= '0' && s[i] <= '9' {
			i++
		}
	}
	if i < n && (s[i] == 'e' || s[i] == 'E') {
		i++
		if i < n && (s[i] == '+' || s[i] == '-') {
			i++
		}
		if i >= n || s[i] < '0' || s[i] > '9' {
			return false
		}
		for i < n && s[i] >= '0' && s[i] <= '9' {
			i++
		}
	}
	return i == n
}

func (p *jParser) str() *jNode {
	c, s, ok := p.peek()
	if ok && s != nil && s.op == "jsonstr" {
		p.pos++
		return &jNode{kind: "string", parts: s.args[0].(StrV)}
	}
	if !ok || s != nil || c != '"' {
		return p.fail("string expected")
	}
	p.pos++
	n := &jNode{kind: "string"}
	for {
		if p.pos >= len(p.items) {
			return p.fail("unterminated string")
		}
		it := p.items[p.pos]
		p.pos++
		if it.seg != nil {
			switch it.seg.op {
			case "bytes":
				sn := it.seg.args[0].(SliceSnap)
				j := p.ex.fresh("j", 64)
				b := sn.a.sel(bvBin("bvadd", sn.off, j))
				bad := tOr(tOr(tEq(b, bvConst('"', 8)), tEq(b, bvConst('\\', 8))), bvCmp("bvult", b, bvConst(0x20, 8)))
				p.cond = tAnd(p.cond, tImplies(bvCmp("bvult", j, sn.len), tNot(bad)))
			case "ipstr", "mac", "hex", "dec", "float":
				// safe characters by contract
			default:
				return p.fail("string contains ‹%s›, whose characters are not known to be safe", it.seg.op)
			}
			n.parts = n.parts.concat(StrV{segs: []Seg{*it.seg}})
			continue
		}
		switch {
		case it.ch == '"':
			return n
		case it.ch == '\\':
			if p.pos >= len(p.items) || p.items[p.pos].seg != nil {
				return p.fail("bad escape in string")
			}
			e := p.items[p.pos].ch
			p.pos++
			if strings.IndexByte("\"\\/bfnrtu", e) < 0 {
				return p.fail("bad escape \\%c in string", e)
			}
			n.esc = true
		case it.ch < 0x20:
			return p.fail("control character in string")
		default:
			n.parts = n.parts.concat(litStr(string([]byte{it.ch})))
		}
	}
}

func (ex *Exec) jsonParse(rope StrV) (*jNode, *Term, string) {
	p := &jParser{ex: ex, items: ropeItems(rope), cond: tTrue}
	n := p.value()
	if n != nil {
		p.ws()
		if p.pos != len(p.items) {
			p.fail("trailing characters after the JSON document")
			n = nil
		}
	}
	return n, p.cond, p.err
}

func (n *jNode) get(path string) *jNode {
	cur := n
	for _, step := range splitPath(path) {
		if cur == nil {
			return nil
		}
		if step.idx >= 0 {
			if cur.kind != "array" || step.idx >= len(cur.vals) {
				return nil
			}
			cur = cur.vals[step.idx]
			continue
		}
		if cur.kind != "object" {
			return nil
		}
		var nx *jNode
		cnt := 0
		for i, k := range cur.keys {
			if k == step.key {
				nx = cur.vals[i]
				cnt++
			}
		}
		if cnt != 1 {
			return nil
		}
		cur = nx
	}
	return cur
}

type pathStep struct {
	key string
	idx int
}

func splitPath(p string) []pathStep {
	var out []pathStep
	for _, part := range strings.Split(p, ".") {
		if part == "" {
			continue
		}
		name := part
		var idxs []int
		for strings.HasSuffix(name, "]") {
			i := strings.LastIndexByte(name, '[')
			var v int
			fmt.Sscanf(name[i+1:len(name)-1], "%d", &v)
			idxs = append([]int{v}, idxs...)
			name = name[:i]
		}
		if name != "" {
			out = append(out, pathStep{key: name, idx: -1})
		}
		for _, v := range idxs {
			out = append(out, pathStep{idx: v})
		}
	}
	return out
}

// ---- harness interface -----------------------------------------------------------

type jsonDoc struct {
	root *jNode
	ok   *Term
	err  string
}

func init() {
	getRope := func(ex *Exec, st *State, v Value) StrV {
		switch x := v.(type) {
		case RopeRef:
			return ex.ropeOf(st, x)
		case StrV:
			return x
		case SliceV:
			return ex.bytesToString(st, x)
		}
		fail("JSON check on %T", v)
		return StrV{}
	}
	docs := func(ex *Exec) map[int]*jsonDoc {
		if ex.jsonDocs == nil {
			ex.jsonDocs = map[int]*jsonDoc{}
		}
		return ex.jsonDocs
	}
	node := func(ex *Exec, args []Value) (*jsonDoc, *jNode) {
		h := args[0].(*Term)
		d := docs(ex)[int(h.v)]
		if d == nil || d.root == nil {
			return d, nil
		}
		p, _ := args[1].(StrV).concrete()
		return d, d.root.get(p)
	}
	// verifJSONParse(b []byte) int : handle (> 0); syntax errors of the skeleton are kept with the handle
	verifExtra["verifJSONParse"] = func(ex *Exec, st *State, fv FuncV, args []Value, res ssa.Value, at ssa.Instruction) bool {
		rope := getRope(ex, st, args[0])
		n, cond, err := ex.jsonParse(rope)
		if os.Getenv("VERIF_DEBUG_JSON") != "" {
			fmt.Fprintln(os.Stderr, "JSON rope:", describe(rope), "\n  cond:", cond.s)
		}
		id := len(docs(ex)) + 1
		docs(ex)[id] = &jsonDoc{root: n, ok: cond, err: err}
		if err != "" {
			ex.note(st, "JSON skeleton: "+err+" in "+describe(rope))
		}
		setRes(st, res, u64(int64(id)))
		return true
	}
	// verifJSONValid(h) bool : the document is one syntactically valid JSON value
	verifExtra["verifJSONValid"] = func(ex *Exec, st *State, fv FuncV, args []Value, res ssa.Value, at ssa.Instruction) bool {
		d := docs(ex)[int(args[0].(*Term).v)]
		if d == nil || d.root == nil {
			setRes(st, res, tFalse)
			return true
		}
		setRes(st, res, d.ok)
		return true
	}
	verifExtra["verifJSONHas"] = func(ex *Exec, st *State, fv FuncV, args []Value, res ssa.Value, at ssa.Instruction) bool {
		_, n := node(ex, args)
		setRes(st, res, boolConst(n != nil))
		return true
	}
	verifExtra["verifJSONLen"] = func(ex *Exec, st *State, fv FuncV, args []Value, res ssa.Value, at ssa.Instruction) bool {
		_, n := node(ex, args)
		if n == nil {
			setRes(st, res, u64(-1))
			return true
		}
		setRes(st, res, u64(int64(len(n.vals))))
		return true
	}
	// verifJSONNum(h, path, v uint64, signed bool) bool : the node is the decimal rendering of v
	verifExtra["verifJSONNum"] = func(ex *Exec, st *State, fv FuncV, args []Value, res ssa.Value, at ssa.Instruction) bool {
		_, n := node(ex, args)
		want := args[2].(*Term)
		signed := args[3].(*Term)
		if n == nil || n.kind != "number" {
			setRes(st, res, tFalse)
			return true
		}
		if n.num != nil && n.num.op == "dec" {
			t := n.num.args[0].(*Term)
			sg := n.num.args[1].(*Term)
			// the rendered term, extended to 64 bits according to its own signedness, must
			// equal the expected value; and the signedness of the rendering must be the
			// expected one unless the value is non-negative in both readings
			ext := bvConv(t, sg.v == 1, 64)
			eq := tEq(ext, want)
			if sg.v != signed.v {
				eq = tAnd(eq, bvCmp("bvsge", want, u64(0)))
			}
			setRes(st, res, eq)
			return true
		}
		if n.lit != "" && want.isConst {
			var s string
			if signed.v == 1 {
				s = formatInt(int64(want.v), 10)
			} else {
				s = formatUint(want.v, 10)
			}
			setRes(st, res, boolConst(n.lit == s))
			return true
		}
		if n.lit != "" {
			// a literal integer against a symbolic expectation
			var u uint64
			var i int64
			if _, err := fmt.Sscanf(n.lit, "%d", &u); err == nil && formatUint(u, 10) == n.lit {
				setRes(st, res, tEq(want, u64(int64(u))))
				return true
			}
			if _, err := fmt.Sscanf(n.lit, "%d", &i); err == nil && formatInt(i, 10) == n.lit && signed.v == 1 {
				setRes(st, res, tEq(want, u64(i)))
				return true
			}
		}
		if len(n.digs) > 0 {
			// value of the digit string in 72 bits (20 digits fit)
			const W = 72
			val := bvConst(0, W)
			for _, d := range n.digs {
				dv := bvZext(bvBin("bvsub", d, bvConst('0', 8)), W)
				val = bvBin("bvadd", bvBin("bvmul", val, bvConst(10, W)), dv)
			}
			var eq *Term
			if n.neg {
				mag := bvBin("bvsub", u64(0), want)
				eq = tAnd(tEq(val, bvZext(mag, W)), bvCmp("bvslt", want, u64(0)))
				if signed.v != 1 {
					eq = tFalse
				}
			} else {
				eq = tEq(val, bvZext(want, W))
				if signed.v == 1 {
					eq = tAnd(eq, bvCmp("bvsge", want, u64(0)))
				}
			}
			setRes(st, res, eq)
			return true
		}
		setRes(st, res, tFalse)
		return true
	}
	// verifJSONFloat(h, path, bits uint64, width int) bool
	verifExtra["verifJSONFloat"] = func(ex *Exec, st *State, fv FuncV, args []Value, res ssa.Value, at ssa.Instruction) bool {
		_, n := node(ex, args)
		bits := args[2].(*Term)
		w := int(args[3].(*Term).v)
		if n == nil || n.kind != "number" || n.num == nil || n.num.op != "float" {
			setRes(st, res, tFalse)
			return true
		}
		f := n.num.args[0].(FloatV)
		bs := args[0].(*Term)
		_ = bs
		if f.w != w {
			setRes(st, res, tFalse)
			return true
		}
		// rendered with the shortest representation that round-trips at the value's own
		// precision (-1), bit size = origin width
		bitSize := n.num.args[3].(*Term)
		prec := n.num.args[2].(*Term)
		okfmt := boolConst(bitSize.isConst && int(bitSize.v) == w && prec.isConst && sext(prec.v, prec.w) == -1)
		setRes(st, res, tAnd(okfmt, tEq(f.bits, bvConv(bits, false, w))))
		return true
	}
	// verifJSONStr(h, path, s string) bool : the node is a string whose content is s
	verifExtra["verifJSONStr"] = func(ex *Exec, st *State, fv FuncV, args []Value, res ssa.Value, at ssa.Instruction) bool {
		_, n := node(ex, args)
		if n == nil || n.kind != "string" || n.esc {
			setRes(st, res, tFalse)
			return true
		}
		setRes(st, res, ex.strEq(n.parts, args[2].(StrV)))
		return true
	}
	// verifJSONBool(h, path, b bool) bool
	verifExtra["verifJSONBool"] = func(ex *Exec, st *State, fv FuncV, args []Value, res ssa.Value, at ssa.Instruction) bool {
		_, n := node(ex, args)
		want := args[2].(*Term)
		switch {
		case n == nil:
			setRes(st, res, tFalse)
		case n.kind == "true" && n.num != nil: // boolstr(t)
			setRes(st, res, tEq(n.num.args[0].(*Term), want))
		case n.kind == "true":
			setRes(st, res, want)
		case n.kind == "false":
			setRes(st, res, tNot(want))
		default:
			setRes(st, res, tFalse)
		}
		return true
	}
	// encoding/json.Marshal of a string value: a correctly escaped JSON string (contract)
	intrinsics["encoding/json.Marshal"] = func(ex *Exec, st *State, fv FuncV, args []Value, res ssa.Value, at ssa.Instruction) bool {
		v := args[0].(IfaceV)
		if s, ok := v.v.(StrV); ok && v.t != nil && isString(v.t) {
			rope := StrV{segs: []Seg{{op: "jsonstr", args: []Value{s}}}}
			id := st.alloc(nil, StructV{f: []Value{rope}})
			setRes(st, res, TupleV{RopeRef{buf: PtrV{obj: id}, n: -1, snap: rope}, IfaceV{}})
			return true
		}
		fail("encoding/json.Marshal of %v is not modelled (reflection)", v.t)
		return false
	}
}

// verifJSONTransparent(v) reports (from the static type, via go/types) whether
// encoding/json saves and restores every data-carrying part of v's type: every struct field
// must be exported and not tagged `json:"-"`; unexported or embedded fields are tolerated
// only if they are synchronisation state (sync.Mutex / sync.RWMutex). This is the
// structural precondition of modelling Marshal/Unmarshal as inverse functions (C11).
func init() {
	verifExtra["verifJSONTransparent"] = func(ex *Exec, st *State, fv FuncV, args []Value, res ssa.Value, at ssa.Instruction) bool {
		v := args[0].(IfaceV)
		if v.t == nil {
			setRes(st, res, tFalse)
			return true
		}
		why := jsonOpaqueReason(v.t, map[string]bool{})
		if why != "" {
			ex.note(st, "not JSON-transparent: "+why)
			ex.Notes["not JSON-transparent: "+why]++
		}
		setRes(st, res, boolConst(why == ""))
		return true
	}
}

func jsonOpaqueReason(t types.Type, seen map[string]bool) string {
	key := t.String()
	if seen[key] {
		return ""
	}
	seen[key] = true
	switch u := t.Underlying().(type) {
	case *types.Basic:
		return ""
	case *types.Pointer:
		return jsonOpaqueReason(u.Elem(), seen)
	case *types.Slice:
		return jsonOpaqueReason(u.Elem(), seen)
	case *types.Array:
		return jsonOpaqueReason(u.Elem(), seen)
	case *types.Map:
		if r := jsonOpaqueReason(u.Key(), seen); r != "" {
			return r
		}
		return jsonOpaqueReason(u.Elem(), seen)
	case *types.Struct:
		for i := 0; i < u.NumFields(); i++ {
			f := u.Field(i)
			ft := f.Type().String()
			if ft == "sync.RWMutex" || ft == "sync.Mutex" {
				continue
			}
			if !f.Exported() {
				return "field " + f.Name() + " of " + t.String() + " is unexported and therefore not saved"
			}
			tag := reflectTag(u.Tag(i), "json")
			if tag == "-" || strings.HasPrefix(tag, "-,") == false && tag == "-" {
				return "field " + f.Name() + " of " + t.String() + " is tagged json:\"-\" and therefore not saved"
			}
			if r := jsonOpaqueReason(f.Type(), seen); r != "" {
				return r
			}
		}
		return ""
	case *types.Interface:
		return "interface-typed data in " + t.String() + " does not round-trip through JSON"
	}
	return "type " + t.String() + " is not handled by the JSON round-trip model"
}

func reflectTag(tag, key string) string {
	return reflect.StructTag(tag).Get(key)
}

// verifJSONCopy(dst, src): *dst becomes what json.Unmarshal(json.Marshal(*src)) yields for the
// same type: a deep copy in which only the fields encoding/json carries survive (exported, not
// tagged "-"); everything else is the zero value. This is the contract of encoding/json for
// plain data (numbers, strings, slices, maps with integer or string keys, structs, pointers);
// interface-typed data is not supported.
func init() {
	verifExtra["verifJSONCopy"] = func(ex *Exec, st *State, fv FuncV, args []Value, res ssa.Value, at ssa.Instruction) bool {
		d, okd := args[0].(IfaceV)
		s, oks := args[1].(IfaceV)
		if !okd || !oks || d.t == nil || s.t == nil {
			fail("verifJSONCopy needs two non-nil pointers")
		}
		dp, sp := d.v.(PtrV), s.v.(PtrV)
		pt, isPtr := d.t.Underlying().(*types.Pointer)
		if !isPtr || dp.obj == 0 || sp.obj == 0 {
			fail("verifJSONCopy needs two non-nil pointers")
		}
		st.store(dp, ex.jsonCopy(st, st.load(sp), pt.Elem()))
		setRes(st, res, TupleV{})
		return true
	}
}

func (ex *Exec) jsonCopy(st *State, v Value, t types.Type) Value {
	switch u := t.Underlying().(type) {
	case *types.Basic:
		return v
	case *types.Pointer:
		p := v.(PtrV)
		if p.obj == 0 {
			return p
		}
		id := st.alloc(u.Elem(), ex.jsonCopy(st, st.load(p), u.Elem()))
		return PtrV{obj: id}
	case *types.Struct:
		sv := v.(StructV)
		nf := make([]Value, len(sv.f))
		for i := range sv.f {
			f := u.Field(i)
			tag := reflectTag(u.Tag(i), "json")
			if !f.Exported() || tag == "-" {
				nf[i] = zeroValue(f.Type())
				continue
			}
			nf[i] = ex.jsonCopy(st, sv.f[i], f.Type())
		}
		return StructV{f: nf}
	case *types.Array:
		if _, _, ok := intInfo(u.Elem()); ok {
			return v
		}
		av := v.(ArrV)
		ne := make([]Value, len(av.e))
		for i := range av.e {
			ne[i] = ex.jsonCopy(st, av.e[i], u.Elem())
		}
		return ArrV{e: ne}
	case *types.Slice:
		sl := v.(SliceV)
		if sl.obj == 0 {
			return sl
		}
		switch c := st.container(sl).(type) {
		case BytesV:
			// octets (and other scalar arrays): a private copy of the window
			na := (&ArrExpr{kind: 1, w: c.w}).copyFrom(u64(0), c.a, sl.off, sl.len)
			id := st.alloc(types.NewArray(u.Elem(), 0), BytesV{a: na, n: sl.len, w: c.w})
			return SliceV{obj: id, off: u64(0), len: sl.len, cap: sl.len}
		case ArrV:
			if !sl.off.isConst || !sl.len.isConst {
				fail("verifJSONCopy of a slice with symbolic bounds")
			}
			ne := make([]Value, sl.len.v)
			for i := range ne {
				ne[i] = ex.jsonCopy(st, c.e[sl.off.v+uint64(i)], u.Elem())
			}
			id := st.alloc(types.NewArray(u.Elem(), int64(len(ne))), ArrV{e: ne})
			return SliceV{obj: id, off: u64(0), len: sl.len, cap: sl.len}
		}
		fail("verifJSONCopy of a slice over %T", st.container(sl))
	case *types.Map:
		mr := v.(MapRef)
		if mr.obj == 0 {
			return mr
		}
		mv := st.heap[mr.obj].val.(*MapV)
		ne := make([]MapEntry, len(mv.entries))
		for i, e := range mv.entries {
			ne[i] = MapEntry{k: e.k, v: ex.jsonCopy(st, e.v, u.Elem())}
		}
		id := st.alloc(st.heap[mr.obj].typ, &MapV{kt: mv.kt, vt: mv.vt, entries: ne})
		return MapRef{obj: id}
	}
	fail("verifJSONCopy: type %s is not plain data", t)
	return nil
}
