package main

import (
	"encoding/json"
	"fmt"
	"os"
	"path/filepath"
	"sort"
)

type Evidence struct {
	id, tier     string
	seed         int
	cfg          *PropConfig
	Runs         int
	Paths        int
	PathEnds     map[string]int
	Instrs       int
	Queries      int
	Sat, Unsat   int
	Unknown      int
	Restarts     int
	Retries      int
	Cross        map[string]interface{}
	PreHits      int
	SolverSecs   float64
	MaxQuery     float64
	Funcs        map[string]bool
	Bounds       map[string]interface{}
	MaxVisit     int
	Replaced     map[string]string
	Notes        map[string]int
	Samples      []interface{}
	KnownSeen    []string
	Violations   int
	Inconclusive []string
	Wall         float64
	Replays      int
	Validated    int
	perEntry     []map[string]interface{}
}

func newEvidence(id, tier string, seed int) *Evidence {
	return &Evidence{id: id, tier: tier, seed: seed, PathEnds: map[string]int{}, Funcs: map[string]bool{}, Bounds: map[string]interface{}{}, Replaced: map[string]string{}, Notes: map[string]int{}}
}

func (e *Evidence) addConfig(c *PropConfig) { e.cfg = c }

func (e *Evidence) addResult(r *JobResult, j *procJob) {
	e.Runs++
	e.Paths += r.Paths
	for k, v := range r.PathEnds {
		e.PathEnds[k] += v
	}
	e.Instrs += r.Instrs
	e.Queries += r.Queries
	e.Sat += r.Sat
	e.Unsat += r.Unsat
	e.Unknown += r.Unknown
	e.Restarts += r.Restarts
	e.Retries += r.Retries
	e.PreHits += r.PreHits
	e.SolverSecs += r.SolverSecs
	if r.MaxQuerySec > e.MaxQuery {
		e.MaxQuery = r.MaxQuerySec
	}
	if r.MaxVisit > e.MaxVisit {
		e.MaxVisit = r.MaxVisit
	}
	for _, f := range r.Funcs {
		e.Funcs[f] = true
	}
	for k, v := range r.Replaced {
		e.Replaced[k] = v
	}
	for k, v := range r.Notes {
		e.Notes[k] += v
	}
	for k, v := range r.Params {
		e.Bounds["param "+k] = v
	}
	e.Bounds["unwind "+r.Entry] = r.Unwind
	pe := map[string]interface{}{"entry": r.Entry, "split": r.Split, "paths": r.Paths, "path_ends": r.PathEnds, "queries": r.Queries, "solver_s": round3(r.SolverSecs), "wall_s": round3(r.WallSecs), "max_loop_visits": r.MaxVisit, "violations": len(r.Violations)}
	e.perEntry = append(e.perEntry, pe)
	for _, s := range r.Samples {
		if len(e.Samples) < 12 {
			e.Samples = append(e.Samples, s)
		}
	}
	for _, v := range r.Violations {
		if len(e.Samples) < 24 {
			e.Samples = append(e.Samples, map[string]interface{}{"harness": v.Harness, "kind": v.Kind, "msg": v.Msg, "where": v.Where, "input": modelString(v.Model)})
		}
	}
}

func round3(f float64) float64 { return float64(int(f*1000+0.5)) / 1000 }

func (e *Evidence) write() {
	var funcs []string
	for f := range e.Funcs {
		funcs = append(funcs, f)
	}
	sort.Strings(funcs)
	if len(e.Samples) == 0 {
		for _, pe := range e.perEntry {
			if len(e.Samples) < 6 {
				e.Samples = append(e.Samples, pe)
			}
		}
	}
	if len(e.Samples) == 0 {
		e.Samples = append(e.Samples, "no path was completed")
	}
	states, trans := e.Paths, e.Instrs
	if states < 1 {
		states = 1
	}
	if trans < 1 {
		trans = 1
	}
	var stubs []string
	for k, v := range e.Replaced {
		stubs = append(stubs, k+" => harness "+v)
	}
	sort.Strings(stubs)
	var notes []string
	for k, v := range e.Notes {
		notes = append(notes, fmt.Sprintf("%s (x%d)", k, v))
	}
	sort.Strings(notes)
	cov := map[string]interface{}{
		"states":                        states,
		"transitions":                   trans,
		"traces_validated_against_impl": e.Replays + e.Validated,
		"samples":                       e.Samples,
		"explanation":                   "states = feasible symbolic paths explored to their end; transitions = SSA instructions executed symbolically; every branch, panic site and assertion on those paths was decided by an SMT query over all inputs within the bounds",
		"functions_encoded":             funcs,
		"bounds":                        e.Bounds,
		"path_ends":                     e.PathEnds,
		"harness_runs":                  e.Runs,
		"per_entry":                     e.perEntry,
		"queries":                       map[string]interface{}{"total": e.Queries, "sat": e.Sat, "unsat": e.Unsat, "unknown": e.Unknown, "answered_by_interval_presolver": e.PreHits, "retried_with_longer_limit": e.Retries, "solver_process_restarts": e.Restarts},
		"solver_time_s":                 round3(e.SolverSecs),
		"max_query_s":                   round3(e.MaxQuery),
		"max_loop_visits":               e.MaxVisit,
		"stubs":                         stubs,
		"notes":                         notes,
		"known_findings_seen":           e.KnownSeen,
		"inconclusive":                  e.Inconclusive,
		"native_replays":                e.Replays,
		"exhaustive":                    false,
	}
	if e.cfg != nil {
		cov["outside_the_claim"] = e.cfg.Outside
	}
	if e.Cross != nil {
		cov["cross_checked_with_other_solvers"] = e.Cross
	}
	assum := []string{"z3 4.8.12 answers are correct", "go/ssa (x/tools v0.29.0) translation of the repository's source is faithful", "executor semantics per DESIGN.md section 2 (intrinsics listed there are models, not executed code)"}
	if e.cfg != nil {
		assum = append(assum, e.cfg.Assumptions...)
	}
	doc := map[string]interface{}{
		"property_id": e.id,
		"tier":        e.tier,
		"seed":        e.seed,
		"level":       "model_checking",
		"coverage":    cov,
		"assumptions": assum,
		"wall_s":      round3(e.Wall),
		"violations":  e.Violations,
	}
	b, _ := json.MarshalIndent(doc, "", " ")
	os.MkdirAll(evidenceDir(), 0755)
	os.WriteFile(filepath.Join(evidenceDir(), e.id+".json"), b, 0644)
}
