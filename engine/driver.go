package main

import (
	"context"
	"encoding/json"
	"flag"
	"fmt"
	"os"
	"os/exec"
	"path/filepath"
	"runtime"
	"sort"
	"strconv"
	"strings"
	"sync"
	"syscall"
	"time"
)

type JobSpec struct {
	Pkg         string                      `json:"pkg"`
	Harness     string                      `json:"harness"`
	Entries     []string                    `json:"entries"`
	Unwind      int                         `json:"unwind"`
	UnwindT     int                         `json:"unwind_thorough"`
	Splits      int                         `json:"splits"`
	SplitsT     int                         `json:"splits_thorough"`
	PerProc     int                         `json:"per_proc"`
	Reach       []string                    `json:"reach"`
	TimeoutS    int                         `json:"timeout_s"`
	TimeoutT    int                         `json:"timeout_s_thorough"`
	OnlyTier    string                      `json:"only_tier"`
	Params      map[string]map[string]int64 `json:"params"`
	FatalViol   bool                        `json:"fatal_is_violation"`
	MaxPaths    int                         `json:"max_paths"`
	MaxViol     int                         `json:"stop_after_violations"`
	MsgPrefixes []string                    `json:"msg_prefixes"` // assertion messages that belong to this property (prefix match; empty: all)
	Trace       bool                        `json:"trace_mode"`
	NoValidate  bool                        `json:"no_validate"`
	Kinds       []string                    `json:"kinds"` // violation kinds that belong to this property (empty: all)
	// other solver binaries the whole job is repeated with (thorough tier, or every tier when
	// cross_tier is "all"): paths, sat/unsat counts and violation sites must agree with z3's
	CrossSolvers []string `json:"cross_solvers"`
	CrossTier    string   `json:"cross_tier"`
}

type PropConfig struct {
	ID          string    `json:"id"`
	Title       string    `json:"title"`
	Assumptions []string  `json:"assumptions"`
	Outside     []string  `json:"outside_the_claim"`
	Jobs        []JobSpec `json:"jobs"`
	Rule        string    `json:"rule"`
	PreCmd      string    `json:"pre_cmd"` // run (bash, cwd /verif) before the jobs: regenerates inputs from /repo
}

type Finding struct {
	ID       string `json:"id"`
	Property string `json:"property"`
	Status   string `json:"status"` // open | fixed
	Match    struct {
		Kind         string   `json:"kind"`
		Harness      string   `json:"harness"`
		SiteContains []string `json:"site_contains"`
	} `json:"match"`
	What     string   `json:"what"`
	GuardsIn []string `json:"guards_in,omitempty"` // other properties whose harnesses assume this finding away
	Commit   string   `json:"commit,omitempty"`
	Line     string   `json:"line,omitempty"`
}

type FindingsFile struct {
	Findings []Finding `json:"findings"`
}

func loadFindings() FindingsFile {
	var ff FindingsFile
	b, err := os.ReadFile(filepath.Join(verifRoot, "known_findings.json"))
	if err == nil {
		json.Unmarshal(b, &ff)
	}
	return ff
}

func (f *Finding) matches(prop string, v *Violation) bool {
	if f.Status != "open" || f.Property != prop {
		return false
	}
	if f.Match.Kind == "" && f.Match.Harness == "" && len(f.Match.SiteContains) == 0 {
		return false
	}
	if f.Match.Kind != "" && f.Match.Kind != v.Kind {
		return false
	}
	if f.Match.Harness != "" {
		if ok, _ := filepath.Match(f.Match.Harness, v.Harness); !ok {
			return false
		}
	}
	for _, s := range f.Match.SiteContains {
		if !strings.Contains(v.Site, s) {
			return false
		}
	}
	return true
}

type procJob struct {
	spec    *JobSpec
	entries []string
	split   int
	unwind  int
	timeout time.Duration
	params  map[string]int64
	out     string
	results []JobResult
	wall    float64
	solver  string   // "" = z3 (the deciding solver); otherwise a cross-check run
	primary *procJob // the run a cross-check run is compared with
}

func cmdCheck(args []string) int {
	fs := flag.NewFlagSet("check", flag.ExitOnError)
	tier := fs.String("tier", "", "quick | thorough")
	procs := fs.Int("j", 0, "parallel executor processes")
	keep := fs.Bool("keep", false, "keep per-job result files")
	var id string
	if len(args) > 0 && !strings.HasPrefix(args[0], "-") {
		id, args = args[0], args[1:]
	}
	fs.Parse(args)
	if id == "" && fs.NArg() > 0 {
		id = fs.Arg(0)
	}
	if *tier == "" {
		*tier = os.Getenv("VERIF_TIER")
	}
	if *tier != "thorough" {
		*tier = "quick"
	}
	seed, _ := strconv.Atoi(os.Getenv("VERIF_SEED"))
	t0 := time.Now()
	var cfg PropConfig
	b, err := os.ReadFile(filepath.Join(verifRoot, "props", id+".json"))
	if err != nil {
		fmt.Println("INCONCLUSIVE: no configuration for property", id)
		return 2
	}
	if err := json.Unmarshal(b, &cfg); err != nil {
		fmt.Println("INCONCLUSIVE: bad configuration:", err)
		return 2
	}
	if cfg.PreCmd != "" {
		pc := exec.Command("bash", "-c", cfg.PreCmd)
		pc.Dir = verifRoot
		pc.Env = goEnv()
		if out, err := pc.CombinedOutput(); err != nil {
			fmt.Printf("INCONCLUSIVE: preparation step failed: %v: %s\n", err, out)
			return 2
		}
	}
	ff := loadFindings()
	var knownIDs []string
	for _, f := range ff.Findings {
		if f.Status == "open" && f.Property == id {
			knownIDs = append(knownIDs, f.ID)
		}
		for _, g := range f.GuardsIn {
			if f.Status == "open" && g == id {
				knownIDs = append(knownIDs, f.ID)
			}
		}
	}
	// expand jobs
	tmp, _ := os.MkdirTemp("", "verif-check-")
	defer func() {
		if !*keep {
			os.RemoveAll(tmp)
		} else {
			fmt.Println("job results kept in", tmp)
		}
	}()
	var jobs []*procJob
	for ji := range cfg.Jobs {
		js := &cfg.Jobs[ji]
		if js.OnlyTier != "" && js.OnlyTier != *tier {
			continue
		}
		unwind, splits, to := js.Unwind, js.Splits, js.TimeoutS
		if *tier == "thorough" {
			if js.UnwindT > 0 {
				unwind = js.UnwindT
			}
			if js.SplitsT > 0 {
				splits = js.SplitsT
			}
			if js.TimeoutT > 0 {
				to = js.TimeoutT
			}
		}
		if unwind == 0 {
			unwind = 40
		}
		if to == 0 {
			to = 600
			if *tier == "thorough" {
				to = 3000
			}
		}
		params := map[string]int64{}
		for k, v := range js.Params["all"] {
			params[k] = v
		}
		for k, v := range js.Params[*tier] {
			params[k] = v
		}
		per := js.PerProc
		if per <= 0 {
			per = 4
		}
		if splits > 0 {
			for _, e := range js.Entries {
				for s := 0; s < splits; s++ {
					jobs = append(jobs, &procJob{spec: js, entries: []string{e}, split: s, unwind: unwind, timeout: time.Duration(to) * time.Second, params: params})
				}
			}
		} else {
			for i := 0; i < len(js.Entries); i += per {
				j := i + per
				if j > len(js.Entries) {
					j = len(js.Entries)
				}
				jobs = append(jobs, &procJob{spec: js, entries: js.Entries[i:j], split: -1, unwind: unwind, timeout: time.Duration(to) * time.Second, params: params})
			}
		}
	}
	if len(jobs) == 0 {
		fmt.Println("INCONCLUSIVE: no jobs configured for", id, "in tier", *tier)
		return 2
	}
	// cross-check runs: the same job with another solver
	var shadows []*procJob
	for _, j := range jobs {
		if len(j.spec.CrossSolvers) == 0 || (*tier != "thorough" && j.spec.CrossTier != "all") || os.Getenv("VERIF_NO_CROSS") != "" {
			continue
		}
		for _, sv := range j.spec.CrossSolvers {
			c := *j
			c.solver, c.primary, c.results = sv, j, nil
			shadows = append(shadows, &c)
		}
	}
	allJobs := append(append([]*procJob(nil), jobs...), shadows...)
	n := *procs
	if n <= 0 {
		n = runtime.NumCPU()
	}
	self, _ := os.Executable()
	var wg sync.WaitGroup
	sem := make(chan struct{}, n)
	for i, j := range allJobs {
		j.out = filepath.Join(tmp, fmt.Sprintf("job%d.json", i))
		wg.Add(1)
		go func(j *procJob) {
			defer wg.Done()
			sem <- struct{}{}
			defer func() { <-sem }()
			a := []string{"run", "-pkg", j.spec.Pkg, "-harness", j.spec.Harness, "-entry", strings.Join(j.entries, ","), "-unwind", strconv.Itoa(j.unwind),
				"-split", strconv.Itoa(j.split), "-known", strings.Join(knownIDs, ","), "-json", j.out, "-seed", strconv.Itoa(seed)}
			if *tier == "thorough" {
				a = append(a, "-qtimeout", "120000")
			}
			if j.solver != "" {
				a = append(a, "-solver", j.solver)
			}
			if j.spec.FatalViol {
				a = append(a, "-fatal-is-violation")
			}
			if j.spec.MaxViol > 0 {
				a = append(a, "-maxviol", strconv.Itoa(j.spec.MaxViol))
			}
			if j.spec.MaxPaths > 0 {
				a = append(a, "-maxpaths", strconv.Itoa(j.spec.MaxPaths))
			}
			for k, v := range j.params {
				a = append(a, "-param", fmt.Sprintf("%s=%d", k, v))
			}
			ctx, cancel := context.WithTimeout(context.Background(), j.timeout)
			defer cancel()
			cmd := exec.CommandContext(ctx, self, a...)
			cmd.Env = goEnv()
			cmd.Cancel = func() error { return cmd.Process.Signal(syscall.SIGTERM) }
			cmd.WaitDelay = 30 * time.Second
			ts := time.Now()
			out, err := cmd.CombinedOutput()
			j.wall = time.Since(ts).Seconds()
			rb, rerr := os.ReadFile(j.out)
			if rerr == nil {
				json.Unmarshal(rb, &j.results)
			}
			if len(j.results) == 0 {
				msg := "executor process failed"
				if ctx.Err() != nil {
					msg = fmt.Sprintf("executor process exceeded its time limit of %s", j.timeout)
				} else if err != nil {
					tail := string(out)
					if len(tail) > 600 {
						tail = tail[len(tail)-600:]
					}
					msg += ": " + err.Error() + ": " + tail
				}
				for _, e := range j.entries {
					j.results = append(j.results, JobResult{Pkg: j.spec.Pkg, HarnessDir: j.spec.Harness, Entry: e, Split: j.split, Fatal: msg})
				}
			}
		}(j)
	}
	wg.Wait()

	// aggregate
	ev := newEvidence(id, *tier, seed)
	ev.addConfig(&cfg)
	crossDis := crossCompare(shadows, ev)
	exit := 0
	inconclusive := append([]string{}, crossDis...)
	var newViol, knownViol []vrec
	seenFinding := map[string]bool{}
	for _, j := range jobs {
		for ri := range j.results {
			r := &j.results[ri]
			ev.addResult(r, j)
			tag := fmt.Sprintf("%s[%d]", r.Entry, r.Split)
			if r.Fatal != "" {
				inconclusive = append(inconclusive, tag+": "+r.Fatal)
			}
			for k := range r.Unsupported {
				inconclusive = append(inconclusive, tag+": unsupported: "+k)
			}
			if r.UnwindHit > 0 {
				inconclusive = append(inconclusive, fmt.Sprintf("%s: unwinding assertion failed %d times (bound %d)", tag, r.UnwindHit, r.Unwind))
			}
			if r.Unknown > 0 {
				inconclusive = append(inconclusive, fmt.Sprintf("%s: solver answered unknown %d times", tag, r.Unknown))
			}
			if r.Stopped {
				inconclusive = append(inconclusive, tag+": path budget exhausted")
			}
			// vacuity: required labels reached (per entry, summed over splits below)
			for vi := range r.Violations {
				v := r.Violations[vi]
				if len(j.spec.Kinds) > 0 {
					mine := false
					for _, k := range j.spec.Kinds {
						if k == v.Kind {
							mine = true
						}
					}
					if !mine {
						ev.Notes[fmt.Sprintf("violation of kind %q at %s belongs to another property's check and is not reported here", v.Kind, v.Site)]++
						continue
					}
				}
				if v.Kind == "assert" && len(j.spec.MsgPrefixes) > 0 {
					mine := false
					for _, p := range j.spec.MsgPrefixes {
						if strings.HasPrefix(v.Msg, p) {
							mine = true
						}
					}
					if !mine {
						ev.Notes[fmt.Sprintf("assertion %q belongs to another property's check and is not reported here", v.Msg)]++
						continue
					}
				}
				matched := false
				for fi := range ff.Findings {
					if ff.Findings[fi].matches(id, &v) {
						matched = true
						seenFinding[ff.Findings[fi].ID] = true
						knownViol = append(knownViol, vrec{v, r, j})
						break
					}
				}
				if !matched {
					newViol = append(newViol, vrec{v, r, j})
				}
			}
		}
	}
	// vacuity per (spec, entry): every required label reached in at least one split
	type ek struct {
		spec  *JobSpec
		entry string
	}
	reached := map[ek]map[string]int{}
	fatalEntry := map[ek]bool{}
	for _, j := range jobs {
		for ri := range j.results {
			r := &j.results[ri]
			k := ek{j.spec, r.Entry}
			if reached[k] == nil {
				reached[k] = map[string]int{}
			}
			for l, c := range r.Reached {
				reached[k][l] += c
			}
			if r.Fatal != "" {
				fatalEntry[k] = true
			}
		}
	}
	for k, m := range reached {
		req := k.spec.Reach
		if req == nil {
			req = []string{"end"}
		}
		for _, l := range req {
			if m[l] == 0 && !fatalEntry[k] {
				inconclusive = append(inconclusive, fmt.Sprintf("%s: vacuous: label %q was not reached on any feasible path", k.entry, l))
			}
		}
	}

	// replay new violations (all) and one known violation per finding in the thorough tier
	replayDir := filepath.Join(evidenceDir(), "replay")
	os.MkdirAll(replayDir, 0755)
	old, _ := filepath.Glob(filepath.Join(replayDir, id+"-*.json"))
	for _, f := range old {
		os.Remove(f)
	}
	var replays []*rp
	mk := func(rec vrec, isNew bool, idx int) *rp {
		hd := rec.job.spec.Harness
		if !filepath.IsAbs(hd) {
			hd = filepath.Join(verifRoot, "harness", hd)
		}
		rf := &ReplayFile{Property: id, Pkg: rec.job.spec.Pkg, HarnessDir: hd, Entry: rec.r.Entry, Split: rec.r.Split, Params: rec.r.Params, Known: rec.r.Known, Model: rec.v.Model, Expect: rec.v}
		p := filepath.Join(replayDir, fmt.Sprintf("%s-%s-%d.json", id, rec.r.Entry, idx))
		return &rp{rf: rf, path: p, rec: rec, new: isNew}
	}
	for i, rec := range newViol {
		replays = append(replays, mk(rec, true, i))
	}
	doneFinding := map[string]bool{}
	for i, rec := range knownViol {
		if *tier != "thorough" && os.Getenv("VERIF_REPLAY_KNOWN") == "" {
			break
		}
		key := rec.v.Site
		if doneFinding[key] {
			continue
		}
		doneFinding[key] = true
		replays = append(replays, mk(rec, false, 1000+i))
	}
	// path samples to validate the executor against the implementation: the sampled input of
	// a path that ended normally must also end normally (all oracle assertions hold) natively
	nval := 2
	if *tier == "thorough" {
		nval = 6
	}
	if os.Getenv("VERIF_NO_VALIDATE") != "" {
		nval = 0
	}
	var validations []*rp
	for _, j := range jobs {
		if j.spec.NoValidate {
			continue
		}
		for ri := range j.results {
			r := &j.results[ri]
			for si, m := range r.SampleModels {
				if len(validations) >= nval || si > 0 {
					break
				}
				tooBig := false
				for _, nv := range m {
					if nv.Kind == "bytes" && nv.Len > 65536 {
						tooBig = true
					}
				}
				if tooBig {
					continue
				}
				rec := vrec{Violation{Kind: "done", Harness: r.Entry, Model: m}, r, j}
				x := mk(rec, false, 2000+len(validations))
				validations = append(validations, x)
			}
		}
	}
	replays = append(replays, validations...)
	for _, rpx := range replays {
		b, _ := json.MarshalIndent(rpx.rf, "", " ")
		os.WriteFile(rpx.path, b, 0644)
	}
	runReplayBatch(replays)
	nViol := 0
	for _, rpx := range replays {
		ev.Replays++
		if rpx.rec.v.Kind == "done" {
			if !rpx.rf.Reproduced {
				inconclusive = append(inconclusive, fmt.Sprintf("%s: executor and native execution disagree on a sampled path (native outcome %q for input %s)", rpx.rec.r.Entry, rpx.rf.Outcome, modelString(rpx.rec.v.Model)))
			}
			os.Remove(rpx.path)
			continue
		}
		if !rpx.new {
			if !rpx.rf.Reproduced {
				inconclusive = append(inconclusive, fmt.Sprintf("known finding at %s did not reproduce natively (%s)", rpx.rec.v.Site, rpx.rf.Outcome))
			}
			continue
		}
		if !rpx.rec.v.HasModel {
			inconclusive = append(inconclusive, fmt.Sprintf("%s: violation without a model (%s %s)", rpx.rec.r.Entry, rpx.rec.v.Kind, rpx.rec.v.Msg))
			continue
		}
		if rpx.rf.Reproduced {
			nViol++
			fmt.Printf("VIOLATION property=%s replay=%s\n", id, rpx.path)
			fmt.Printf("  %s: %s at %s\n  native outcome: %s\n  input: %s\n", rpx.rec.v.Kind, rpx.rec.v.Msg, rpx.rec.v.Where, rpx.rf.Outcome, modelString(rpx.rec.v.Model))
		} else {
			inconclusive = append(inconclusive, fmt.Sprintf("%s: counterexample did not reproduce natively (%s %q at %s; native outcome %q) — executor or model error", rpx.rec.r.Entry, rpx.rec.v.Kind, rpx.rec.v.Msg, rpx.rec.v.Where, rpx.rf.Outcome))
		}
	}
	// known findings
	var ids []string
	for fid := range seenFinding {
		ids = append(ids, fid)
	}
	sort.Strings(ids)
	for _, fid := range ids {
		for _, f := range ff.Findings {
			if f.ID == fid {
				fmt.Printf("KNOWN-FINDING: property=%s %s: %s\n", id, f.ID, f.What)
				ev.KnownSeen = append(ev.KnownSeen, f.ID)
			}
		}
	}
	ev.Violations = nViol
	ev.Inconclusive = inconclusive
	ev.Wall = time.Since(t0).Seconds()
	ev.write()
	switch {
	case nViol > 0:
		exit = 1
	case len(inconclusive) > 0:
		exit = 2
	}
	sort.Strings(inconclusive)
	for i, s := range inconclusive {
		if i >= 25 {
			fmt.Printf("INCONCLUSIVE: ... and %d more\n", len(inconclusive)-i)
			break
		}
		fmt.Println("INCONCLUSIVE:", s)
	}
	fmt.Printf("%s %s: %d executor processes, %d harness runs, paths=%d instrs=%d queries=%d (unknown %d) solver=%.1fs wall=%.1fs violations=%d known=%d exit=%d\n",
		id, *tier, len(jobs), ev.Runs, ev.Paths, ev.Instrs, ev.Queries, ev.Unknown, ev.SolverSecs, ev.Wall, nViol, len(ids), exit)
	return exit
}

type vrec struct {
	v   Violation
	r   *JobResult
	job *procJob
}

type rp struct {
	rf   *ReplayFile
	path string
	rec  vrec
	new  bool
}

// runReplayBatch replays counterexamples natively, one test binary per harness directory.
func runReplayBatch(items []*rp) {
	groups := map[string][]*rp{}
	for _, it := range items {
		k := it.rf.Pkg + "|" + it.rf.HarnessDir
		groups[k] = append(groups[k], it)
	}
	var wg sync.WaitGroup
	for _, g := range groups {
		wg.Add(1)
		go func(g []*rp) {
			defer wg.Done()
			rb, err := newReplayBinary(g[0].rf.Pkg, g[0].rf.HarnessDir)
			if err != nil {
				for _, it := range g {
					it.rf.Outcome = "replay-error: " + err.Error()
				}
			} else {
				defer rb.Close()
				for _, it := range g {
					rb.Run(it.rf, it.path)
				}
			}
			for _, it := range g {
				b, _ := json.MarshalIndent(it.rf, "", " ")
				os.WriteFile(it.path, b, 0644)
			}
		}(g)
	}
	wg.Wait()
}

// crossCompare checks that every cross-check run took the same decisions as the z3 run it
// shadows: same number of paths, same sat / unsat answers, same violation sites.
func crossCompare(shadows []*procJob, ev *Evidence) []string {
	var out []string
	type agg struct {
		runs, queries int
		secs          float64
		disagree      int
		incomplete    int
	}
	per := map[string]*agg{}
	for _, sj := range shadows {
		a := per[sj.solver]
		if a == nil {
			a = &agg{}
			per[sj.solver] = a
		}
		pr := sj.primary
		for i := range sj.results {
			r := &sj.results[i]
			a.runs++
			a.queries += r.Queries
			a.secs += r.SolverSecs
			tag := fmt.Sprintf("%s[%d]", r.Entry, r.Split)
			if i >= len(pr.results) {
				continue
			}
			p := &pr.results[i]
			if r.Fatal != "" || p.Fatal != "" {
				if r.Fatal != "" && p.Fatal == "" {
					out = append(out, fmt.Sprintf("%s: cross-check run with %s failed: %s", tag, sj.solver, r.Fatal))
					a.disagree++
				}
				continue
			}
			sites := func(x *JobResult) string {
				var s []string
				for _, v := range x.Violations {
					s = append(s, v.Kind+"|"+v.Site)
				}
				sort.Strings(s)
				return strings.Join(s, "\n")
			}
			if r.Unknown > 0 {
				// the second solver ran out of time on some query: that run says nothing either
				// way about z3's answers; it is reported in the evidence, not as a disagreement
				a.incomplete++
				continue
			}
			if r.Paths != p.Paths || r.Sat != p.Sat || r.Unsat != p.Unsat || sites(r) != sites(p) {
				out = append(out, fmt.Sprintf("%s: %s disagrees with z3: paths %d vs %d, sat %d vs %d, unsat %d vs %d, violations %d vs %d", tag, sj.solver, r.Paths, p.Paths, r.Sat, p.Sat, r.Unsat, p.Unsat, len(r.Violations), len(p.Violations)))
				a.disagree++
			}
		}
	}
	if len(per) > 0 {
		m := map[string]interface{}{}
		for k, a := range per {
			m[k] = map[string]interface{}{"harness_runs_repeated": a.runs, "queries": a.queries, "solver_seconds": a.secs, "disagreements": a.disagree, "runs_with_unanswered_queries_not_compared": a.incomplete}
		}
		ev.Cross = m
	}
	return out
}
