package main

import "fmt"

// selftest checks the pieces of the executor that do not need the repository:
// constant folding against Go arithmetic and the interval pre-solver against z3.
func selftest() int {
	bad := 0
	chk := func(name string, got, want uint64) {
		if got != want {
			fmt.Printf("selftest FAIL %s: got %#x want %#x\n", name, got, want)
			bad++
		}
	}
	a, b := uint64(0xfffffffffffffff0), uint64(0x25)
	chk("add", bvBin("bvadd", bvConst(a, 64), bvConst(b, 64)).v, a+b)
	chk("sub", bvBin("bvsub", bvConst(b, 64), bvConst(a, 64)).v, b-a)
	chk("mul32", bvBin("bvmul", bvConst(0x01000193, 32), bvConst(0x811c9dc5, 32)).v, uint64(mul32(0x01000193, 0x811c9dc5)))
	chk("shl8", bvBin("bvshl", bvConst(0x81, 8), bvConst(1, 8)).v, 0x02)
	chk("sdiv", bvBin("bvsdiv", bvConst(uint64(0xfff9), 16), bvConst(2, 16)).v, uint64(sdiv16(-7, 2)))
	chk("srem", bvBin("bvsrem", bvConst(uint64(0xfff9), 16), bvConst(2, 16)).v, uint64(srem16(-7, 2)))
	chk("sext", bvSext(bvConst(0x80, 8), 32).v, 0xffffff80)
	chk("conv", bvConv(bvConst(0x1234, 16), false, 8).v, 0x34)
	chk("growcap", uint64(growCap(0, 1, 8)), 1)
	chk("growcap2", uint64(growCap(4, 5, 8)), 8)
	chk("growcap3", uint64(growCap(3, 4, 16)), 6)
	// solver round trip, including the pre-solver's agreement with z3
	sol, err := NewSolver("z3", 0, 10000, nil)
	if err != nil {
		fmt.Println("selftest FAIL: cannot start z3:", err)
		return 1
	}
	defer sol.Close()
	curSolver = sol
	x := sol.Fresh("x", 64)
	sol.Assert(bvCmp("bvsge", x, u64(0)))
	sol.Assert(bvCmp("bvslt", x, u64(100)))
	q := bvCmp("bvslt", bvBin("bvadd", x, u64(5)), u64(200))
	pre, decided := sol.facts.Decide(tNot(q))
	if !decided || pre {
		fmt.Println("selftest FAIL: pre-solver did not decide x+5<200 under 0<=x<100")
		bad++
	}
	sol.facts = NewFacts() // ask z3 itself
	if r := sol.Check(tNot(q)); r != "unsat" {
		fmt.Println("selftest FAIL: z3 says", r)
		bad++
	}
	if r := sol.Check(tEq(x, u64(99))); r != "sat" {
		fmt.Println("selftest FAIL: z3 says", r, "for x=99")
		bad++
	}
	arr := &ArrExpr{kind: 1, w: 8}
	arr2 := arr.store(x, bvConst(7, 8))
	if r := sol.Check(tNot(tEq(arr2.sel(x), bvConst(7, 8)))); r != "unsat" {
		fmt.Println("selftest FAIL: array store/select")
		bad++
	}
	if bad == 0 {
		fmt.Println("selftest ok")
		return 0
	}
	return 1
}

func mul32(a, b uint32) uint32 { return a * b }
func sdiv16(a, b int16) uint16 { return uint16(a / b) }
func srem16(a, b int16) uint16 { return uint16(a % b) }
