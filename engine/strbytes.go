package main

import (
	"fmt"
)

// Byte-level meaning of ropes. Most comparisons in the harnesses are decided on the
// shape of the rope (the same formatting function applied to equal arguments). When the
// code under test renders a value with its own loop instead (digits written octet by
// octet), the two sides have different shapes; then both are expanded to octet sequences:
// a literal, a snapshot of concrete length, a decimal rendering (one alternative per digit
// count), dotted IPv4 text, hex and MAC text. Equality is the disjunction over pairs of
// alternatives of the same length.

type balt struct {
	cond  *Term
	bytes []*Term
}

const maxAltPairs = 40000

func pow10(k int) uint64 {
	r := uint64(1)
	for i := 0; i < k; i++ {
		r *= 10
	}
	return r
}

// decAlts: decimal rendering of an unsigned w-bit term.
func decAltsUnsigned(t *Term) []balt {
	w := t.w
	if w < 8 {
		t = bvZext(t, 8)
		w = 8
	}
	maxDigits := len(fmt.Sprintf("%d", mask(t.w)))
	var out []balt
	for k := 1; k <= maxDigits; k++ {
		c := tTrue
		if k > 1 {
			c = tAnd(c, bvCmp("bvuge", t, bvConst(pow10(k-1), w)))
		}
		if k < maxDigits {
			c = tAnd(c, bvCmp("bvult", t, bvConst(pow10(k), w)))
		}
		var bs []*Term
		for i := 0; i < k; i++ {
			d := bvBin("bvurem", bvBin("bvudiv", t, bvConst(pow10(k-1-i), w)), bvConst(10, w))
			bs = append(bs, bvBin("bvadd", bvExtract(7, 0, d), bvConst('0', 8)))
		}
		out = append(out, balt{c, bs})
	}
	return out
}

func decAlts(t *Term, signed bool) []balt {
	if !signed {
		return decAltsUnsigned(t)
	}
	var out []balt
	neg := bvCmp("bvslt", t, bvConst(0, t.w))
	for _, a := range decAltsUnsigned(t) {
		out = append(out, balt{tAnd(tNot(neg), a.cond), a.bytes})
	}
	m := bvBin("bvsub", bvConst(0, t.w), t)
	for _, a := range decAltsUnsigned(m) {
		out = append(out, balt{tAnd(neg, a.cond), append([]*Term{bvConst('-', 8)}, a.bytes...)})
	}
	return out
}

func hexDigit(n *Term) *Term { // n: 8-bit term < 16
	return tIte(bvCmp("bvult", n, bvConst(10, 8)), bvBin("bvadd", n, bvConst('0', 8)), bvBin("bvadd", n, bvConst('a'-10, 8)))
}

func crossAlts(a, b []balt) ([]balt, bool) {
	if len(a)*len(b) > maxAltPairs {
		return nil, false
	}
	var out []balt
	for _, x := range a {
		for _, y := range b {
			c := tAnd(x.cond, y.cond)
			if c.isConst && c.v == 0 {
				continue
			}
			bs := make([]*Term, 0, len(x.bytes)+len(y.bytes))
			bs = append(bs, x.bytes...)
			bs = append(bs, y.bytes...)
			out = append(out, balt{c, bs})
		}
	}
	return out, true
}

func litAlt(s string) []balt {
	var bs []*Term
	for i := 0; i < len(s); i++ {
		bs = append(bs, bvConst(uint64(s[i]), 8))
	}
	return []balt{{tTrue, bs}}
}

func snapBytes(sn SliceSnap) ([]*Term, bool) {
	if !sn.len.isConst || sn.len.v > 64 {
		return nil, false
	}
	var bs []*Term
	for i := uint64(0); i < sn.len.v; i++ {
		bs = append(bs, sn.a.sel(bvBin("bvadd", sn.off, u64(int64(i)))))
	}
	return bs, true
}

func (ex *Exec) segAlts(g Seg) ([]balt, bool) {
	switch g.op {
	case "":
		return litAlt(g.lit), true
	case "bytes":
		bs, ok := snapBytes(g.args[0].(SliceSnap))
		if !ok {
			return nil, false
		}
		return []balt{{tTrue, bs}}, true
	case "dec":
		t := g.args[0].(*Term)
		sg := g.args[1].(*Term)
		base := g.args[2].(*Term)
		if base.v != 10 {
			return nil, false
		}
		return decAlts(t, sg.v == 1), true
	case "ipstr":
		bs, ok := snapBytes(g.args[0].(SliceSnap))
		if !ok || len(bs) != 4 {
			return nil, false
		}
		out := []balt{{tTrue, nil}}
		for i, b := range bs {
			if i > 0 {
				out, _ = crossAlts(out, litAlt("."))
			}
			var ok2 bool
			out, ok2 = crossAlts(out, decAltsUnsigned(b))
			if !ok2 {
				return nil, false
			}
		}
		return out, true
	case "hex", "mac":
		bs, ok := snapBytes(g.args[0].(SliceSnap))
		if !ok {
			return nil, false
		}
		var o []*Term
		for i, b := range bs {
			if g.op == "mac" && i > 0 {
				o = append(o, bvConst(':', 8))
			}
			o = append(o, hexDigit(bvBin("bvlshr", b, bvConst(4, 8))), hexDigit(bvBin("bvand", b, bvConst(15, 8))))
		}
		return []balt{{tTrue, o}}, true
	}
	return nil, false
}

func (ex *Exec) ropeAlts(s StrV) ([]balt, bool) {
	out := []balt{{tTrue, nil}}
	for _, g := range s.segs {
		a, ok := ex.segAlts(g)
		if !ok {
			return nil, false
		}
		out, ok = crossAlts(out, a)
		if !ok {
			return nil, false
		}
	}
	return out, true
}

// ropeIndexable: a rope whose length and i-th octet are terms (literals, octet snapshots of any
// length, hex text of a snapshot of any length).
func (ex *Exec) ropeIndexable(s StrV) (n *Term, at func(i *Term) *Term, ok bool) {
	type piece struct {
		start, n *Term
		at       func(rel *Term) *Term
	}
	var ps []piece
	pos := u64(0)
	for _, g := range s.segs {
		var pn *Term
		var pat func(rel *Term) *Term
		switch g.op {
		case "":
			lit := g.lit
			if len(lit) > 64 {
				return nil, nil, false
			}
			pn = u64(int64(len(lit)))
			pat = func(rel *Term) *Term {
				v := bvConst(uint64(lit[len(lit)-1]), 8)
				for k := len(lit) - 2; k >= 0; k-- {
					v = tIte(tEq(rel, u64(int64(k))), bvConst(uint64(lit[k]), 8), v)
				}
				return v
			}
			if len(lit) == 0 {
				continue
			}
		case "bytes":
			sn := g.args[0].(SliceSnap)
			pn = sn.len
			pat = func(rel *Term) *Term { return sn.a.sel(bvBin("bvadd", sn.off, rel)) }
		case "hex":
			sn := g.args[0].(SliceSnap)
			pn = bvBin("bvshl", sn.len, u64(1))
			pat = func(rel *Term) *Term {
				b := sn.a.sel(bvBin("bvadd", sn.off, bvBin("bvlshr", rel, u64(1))))
				hi := tEq(bvBin("bvand", rel, u64(1)), u64(0))
				return hexDigit(tIte(hi, bvBin("bvlshr", b, bvConst(4, 8)), bvBin("bvand", b, bvConst(15, 8))))
			}
		default:
			return nil, nil, false
		}
		ps = append(ps, piece{pos, pn, pat})
		pos = bvBin("bvadd", pos, pn)
	}
	total := pos
	return total, func(i *Term) *Term {
		v := bvConst(0, 8)
		for k := len(ps) - 1; k >= 0; k-- {
			p := ps[k]
			in := tAnd(bvCmp("bvuge", i, p.start), bvCmp("bvult", bvBin("bvsub", i, p.start), p.n))
			v = tIte(in, p.at(bvBin("bvsub", i, p.start)), v)
		}
		return v
	}, true
}

// strEqBytes decides equality of two ropes on their octets; ok=false when one side has
// a piece whose octets the model does not define.
func (ex *Exec) strEqBytes(a, b StrV) (*Term, bool) {
	aa, ok := ex.ropeAlts(a)
	var bb []balt
	if ok {
		bb, ok = ex.ropeAlts(b)
	}
	if !ok {
		// symbolic lengths: equal lengths and equal octets at a Skolem index (valid where the
		// comparison is asserted; the same device as for octet snapshots of symbolic length)
		na, ata, oka := ex.ropeIndexable(a)
		nb, atb, okb := ex.ropeIndexable(b)
		if !oka || !okb {
			return nil, false
		}
		j := ex.fresh("j", 64)
		ex.Notes["string equality over symbolic-length octets decided with a Skolem index (valid in assertions)"]++
		return tAnd(tEq(na, nb), tImplies(bvCmp("bvult", j, na), tEq(ata(j), atb(j)))), true
	}
	if len(aa)*len(bb) > maxAltPairs {
		return nil, false
	}
	ex.Notes["string equality decided on the octets of both renderings (decimal / dotted / hex text expanded per digit count)"]++
	r := tFalse
	for _, x := range aa {
		for _, y := range bb {
			if len(x.bytes) != len(y.bytes) {
				continue
			}
			c := tAnd(x.cond, y.cond)
			for i := range x.bytes {
				c = tAnd(c, tEq(x.bytes[i], y.bytes[i]))
				if c.isConst && c.v == 0 {
					break
				}
			}
			r = tOr(r, c)
		}
	}
	return r, true
}
