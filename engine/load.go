package main

import (
	"fmt"
	"os"
	"path/filepath"
	"sort"
	"strings"

	"golang.org/x/tools/go/packages"
	"golang.org/x/tools/go/ssa"
	"golang.org/x/tools/go/ssa/ssautil"
)

const repoModule = "github.com/EdgeCast/vflow"

type Loaded struct {
	repo     string
	prog     *ssa.Program
	pkgs     []*packages.Package
	main     *ssa.Package // the package carrying the harness
	mainPkg  *packages.Package
	overlay  map[string][]byte
	repl     map[string]*ssa.Function // real function (ssa String()) -> harness function
	replSrc  map[string]string        // same, textual (for replay rewriting)
	LoadSecs float64
}

func (ld *Loaded) isRepoPkg(p *ssa.Package) bool {
	return p != nil && p.Pkg != nil && strings.HasPrefix(p.Pkg.Path(), repoModule)
}

func goEnv() []string {
	return append(os.Environ(), "GOFLAGS=-mod=mod", "GOPROXY=off", "GOSUMDB=off", "GOTOOLCHAIN=local")
}

// rtDecl is the harness-side declaration of the executor's primitives (bodyless:
// the executor intercepts them). The native twin is in replay.go.
const rtDecl = `//go:build verif

package %s

func verifNondetInt() int
func verifNondetI64() int64
func verifNondetU8() uint8
func verifNondetU16() uint16
func verifNondetU32() uint32
func verifNondetU64() uint64
func verifNondetBool() bool
func verifNondetBytes(n int) []byte
func verifNondetBytesCap(n, c int) []byte
func verifAssume(b bool)
func verifAssert(b bool, msg string)
func verifReach(s string)
func verifNote(s string)
func verifAt(b []byte, i int) byte
func verifAll(c ...bool) bool
func verifAny(c ...bool) bool
func verifKnown(id string) bool
func verifParam(name string, def int) int
func verifSplit(n int) int
func verifCase(n int) int
func verifBytesEq(a, b []byte) bool
func verifStrEq(a, b string) bool
func verifProgress(measure func() int, fns ...string)
func verifAllocBound(n int)
func verifLoopBound(fnSuffix string, iterations int)
func verifConcurrent(ops ...func())
func verifJSONTransparent(v interface{}) bool
func verifJSONCopy(dst, src interface{})
func verifJSONParse(b []byte) int
func verifJSONValid(h int) bool
func verifJSONHas(h int, path string) bool
func verifJSONLen(h int, path string) int
func verifJSONNum(h int, path string, v uint64, signed bool) bool
func verifJSONFloat(h int, path string, bits uint64, width int) bool
func verifJSONStr(h int, path string, s string) bool
func verifJSONBool(h int, path string, b bool) bool
`

// harnessOverlay builds the overlay for a harness directory injected into pkgDir.
func harnessOverlay(repo, pkgRel, hdir string) (map[string][]byte, string, error) {
	overlay := map[string][]byte{}
	pkgDir := filepath.Join(repo, pkgRel)
	files, _ := filepath.Glob(filepath.Join(hdir, "*.go"))
	sort.Strings(files)
	pkgName := ""
	for _, f := range files {
		b, err := os.ReadFile(f)
		if err != nil {
			return nil, "", err
		}
		if strings.HasSuffix(f, "_native.go") {
			continue // native-only helpers (replay)
		}
		for _, l := range strings.Split(string(b), "\n") {
			if strings.HasPrefix(l, "package ") {
				pkgName = strings.TrimSpace(strings.TrimPrefix(l, "package "))
				break
			}
		}
		overlay[filepath.Join(pkgDir, "zz_verif_"+filepath.Base(f))] = b
	}
	if pkgName == "" {
		return nil, "", fmt.Errorf("no harness files in %s", hdir)
	}
	overlay[filepath.Join(pkgDir, "zz_verif_rt_decl.go")] = []byte(fmt.Sprintf(rtDecl, pkgName))
	return overlay, pkgName, nil
}

func Load(repo, pkgRel, hdir string) (*Loaded, error) {
	overlay, _, err := harnessOverlay(repo, pkgRel, hdir)
	if err != nil {
		return nil, err
	}
	cfg := &packages.Config{Mode: packages.LoadAllSyntax, Dir: repo, Overlay: overlay, Env: goEnv(), BuildFlags: []string{"-tags=verif"}}
	pkgs, err := packages.Load(cfg, "./"+strings.TrimPrefix(pkgRel, "./"))
	if err != nil {
		return nil, err
	}
	nerr := 0
	packages.Visit(pkgs, nil, func(p *packages.Package) {
		for _, e := range p.Errors {
			if strings.HasPrefix(p.PkgPath, repoModule) {
				fmt.Fprintln(os.Stderr, "load error:", e)
				nerr++
			}
		}
	})
	if nerr > 0 {
		return nil, fmt.Errorf("%d package errors (the harness no longer compiles against the repository?)", nerr)
	}
	prog, spkgs := ssautil.AllPackages(pkgs, ssa.InstantiateGenerics)
	if len(spkgs) == 0 || spkgs[0] == nil {
		return nil, fmt.Errorf("no SSA package")
	}
	// build bodies lazily: only the repository packages up front
	for _, p := range prog.AllPackages() {
		if strings.HasPrefix(p.Pkg.Path(), repoModule) {
			p.Build()
		}
	}
	ld := &Loaded{repo: repo, prog: prog, pkgs: pkgs, main: spkgs[0], mainPkg: pkgs[0], overlay: overlay, repl: map[string]*ssa.Function{}, replSrc: map[string]string{}}
	// directives:  //verif:replace <ssa function name> <harness function>
	for _, b := range overlay {
		for _, l := range strings.Split(string(b), "\n") {
			l = strings.TrimSpace(l)
			if !strings.HasPrefix(l, "//verif:replace ") {
				continue
			}
			f := strings.Fields(strings.TrimPrefix(l, "//verif:replace "))
			if len(f) != 2 {
				return nil, fmt.Errorf("bad directive: %s", l)
			}
			h := ld.main.Func(f[1])
			if h == nil {
				return nil, fmt.Errorf("directive names unknown harness function %s", f[1])
			}
			ld.repl[f[0]] = h
			ld.replSrc[f[0]] = f[1]
		}
	}
	return ld, nil
}
