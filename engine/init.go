package main

import "golang.org/x/tools/go/ssa"

// runInits executes the package initialisers of the repository packages the harness
// package depends on (their real SSA, concretely). Initialisers of packages outside
// the repository are not run (see dispatch); calls without body or model yield zero
// values while ex.lenient is set.
func (ex *Exec) runInits(st *State) {
	initFn := ex.ld.main.Func("init")
	if initFn == nil {
		return
	}
	ex.lenient = true
	defer func() { ex.lenient = false }()
	fr := &Frame{fn: initFn, block: initFn.Blocks[0], env: map[ssa.Value]Value{}, visits: map[int]int{}, sync: true}
	st.frames = []*Frame{fr}
	saveUnwind := ex.unwind
	ex.unwind = 1 << 30
	ex.noFork++
	ex.run(st)
	ex.noFork--
	ex.unwind = saveUnwind
	delete(st.ghost, "$syncResult")
	if len(st.frames) != 0 {
		st.frames = nil
		fail("package initialisation did not complete")
	}
}
