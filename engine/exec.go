package main

import (
	"fmt"
	"go/constant"
	"go/token"
	"go/types"
	"os"
	"sort"
	"strings"

	"golang.org/x/tools/go/ssa"
)

// NondetVal is one recorded nondeterministic input of a counterexample.
type NondetVal struct {
	Fn    string `json:"fn"`
	Kind  string `json:"kind"`
	W     int    `json:"w,omitempty"`
	Val   uint64 `json:"val"`
	Len   uint64 `json:"len,omitempty"`
	Bytes string `json:"bytes,omitempty"` // hex
	// SymLen is the full length the solver chose (Bytes may be capped)
}

type Violation struct {
	Kind     string      `json:"kind"` // panic | assert | progress | alloc | exit | unwind
	Msg      string      `json:"msg"`
	Where    string      `json:"where"`
	Site     string      `json:"site"` // stable key: function | source line text | msg
	Harness  string      `json:"harness"`
	Model    []NondetVal `json:"model"`
	Notes    []string    `json:"notes,omitempty"`
	HasModel bool        `json:"has_model"`
}

type Exec struct {
	ld               *Loaded
	prog             *ssa.Program
	sol              *Solver
	unwind           int
	Paths            int
	PathEnds         map[string]int
	Instrs           int
	Forks            int
	Unsupp           map[string]int
	UnwindHit        int
	Infeasible       int
	Violations       []Violation
	seenViol         map[string]bool
	opaqueErrT       types.Type
	maxViol          int
	MaxVisit         int
	trace            bool
	Reached          map[string]int
	Funcs            map[string]bool // functions whose SSA was executed
	Samples          []string
	harness          string
	params           map[string]int64
	splitIdx         int
	known            map[string]bool
	maxBytes         int
	initDone         bool
	lenient          bool // init mode: unsupported calls yield opaque values
	progress         *progressMon
	allocBound       *Term
	traces           [][]Event
	Notes            map[string]int
	maxPaths         int
	stopped          bool
	srcCache         map[string][]string
	noFork           int
	traceMode        bool
	curThread        int
	fatalIsViolation bool
	sampleBudget     int
	ForkSites        map[string]int
	loopBounds       map[string]int
	stopAfterViol    int
	jsonDocs         map[int]*jsonDoc
	interrupted      bool
	PathSamples      []interface{}
	SampleModels     [][]NondetVal
}

func NewExec(ld *Loaded, sol *Solver, unwind int) *Exec {
	// synthetic dynamic type for errors produced by fmt.Errorf / errors.New
	errIface := types.Universe.Lookup("error").Type().Underlying().(*types.Interface)
	sig := errIface.Method(0).Type().(*types.Signature)
	tn := types.NewTypeName(token.NoPos, nil, "opaqueError", nil)
	named := types.NewNamed(tn, types.NewStruct(nil, nil), nil)
	recv := types.NewVar(token.NoPos, nil, "e", named)
	named.AddMethod(types.NewFunc(token.NoPos, nil, "Error", types.NewSignatureType(recv, nil, nil, sig.Params(), sig.Results(), false)))
	return &Exec{ld: ld, prog: ld.prog, sol: sol, unwind: unwind, Unsupp: map[string]int{}, seenViol: map[string]bool{}, opaqueErrT: named,
		maxViol: 40, Reached: map[string]int{}, Funcs: map[string]bool{}, PathEnds: map[string]int{}, params: map[string]int64{}, known: map[string]bool{},
		maxBytes: 4096, sampleBudget: 3, Notes: map[string]int{}, maxPaths: 2000000, srcCache: map[string][]string{}}
}

func (ex *Exec) fresh(prefix string, w int) *Term { return ex.sol.Fresh(prefix, w) }

func (ex *Exec) feasible(c *Term) bool {
	if c.isConst {
		return c.v == 1
	}
	return ex.sol.Check(c) != "unsat"
}

func (ex *Exec) srcLine(file string, line int) string {
	ls, ok := ex.srcCache[file]
	if !ok {
		var b []byte
		if ov, isOv := ex.ld.overlay[file]; isOv {
			b = ov
		} else {
			b, _ = os.ReadFile(file)
		}
		ls = strings.Split(string(b), "\n")
		ex.srcCache[file] = ls
	}
	if line >= 1 && line <= len(ls) {
		return strings.TrimSpace(ls[line-1])
	}
	return ""
}

func (ex *Exec) where(ins ssa.Instruction) (string, string) {
	p := ex.prog.Fset.Position(ins.Pos())
	fn := ins.Parent()
	if !p.IsValid() {
		// fall back to the position of the function
		return fn.String(), fn.String() + "|?"
	}
	txt := ex.srcLine(p.Filename, p.Line)
	return fmt.Sprintf("%s (%s:%d)", fn.String(), p.Filename, p.Line), fn.String() + "|" + txt
}

func (ex *Exec) model(st *State) ([]NondetVal, bool) {
	var out []NondetVal
	var qs []string
	var qi []int
	for i, nd := range st.nondet {
		switch nd.kind {
		case "bytes":
			if nd.lenT.isConst {
				continue
			}
			qs = append(qs, nd.lenT.s)
			qi = append(qi, i)
		case "const":
		default:
			qs = append(qs, nd.name)
			qi = append(qi, i)
		}
	}
	got := map[int]uint64{}
	ok := true
	if len(qs) > 0 {
		vals := ex.sol.GetValues(qs)
		for k, i := range qi {
			v, okv := parseBV(vals[k])
			if !okv {
				ok = false
			}
			got[i] = v
		}
	}
	for i, nd := range st.nondet {
		nv := NondetVal{Fn: nd.fn, Kind: nd.kind, W: nd.w}
		switch nd.kind {
		case "const":
			nv.Val = nd.lenT.v
		case "bytes":
			n := got[i]
			if nd.lenT.isConst {
				n = nd.lenT.v
			}
			nv.Len = n
			if n > uint64(ex.maxBytes) {
				n = uint64(ex.maxBytes)
			}
			var bq []string
			for j := uint64(0); j < n; j++ {
				bq = append(bq, fmt.Sprintf("(select %s #x%016x)", nd.name, j))
			}
			var sb strings.Builder
			if len(bq) > 0 {
				for _, b := range ex.sol.GetValues(bq) {
					x, okb := parseBV(b)
					if !okb {
						ok = false
					}
					fmt.Fprintf(&sb, "%0*x", nd.w/4, x)
				}
			}
			nv.Bytes = sb.String()
		default:
			nv.Val = got[i]
		}
		out = append(out, nv)
	}
	return out, ok
}

func (ex *Exec) recordViolation(st *State, kind, msg string, ins ssa.Instruction, cond *Term) {
	where, site := ex.where(ins)
	site = site + "|" + msg
	key := kind + "|" + site
	if ex.seenViol[key] || len(ex.Violations) >= ex.maxViol {
		return
	}
	ex.seenViol[key] = true
	v := Violation{Kind: kind, Msg: msg, Where: where, Site: site, Harness: ex.harness, Notes: append([]string(nil), st.notes...)}
	v.Model, v.HasModel = ex.smallModel(st, cond)
	ex.Violations = append(ex.Violations, v)
	if ex.stopAfterViol > 0 && len(ex.Violations) >= ex.stopAfterViol {
		ex.stopped = true
	}
}

// smallModel returns a model of the path condition (plus cond), preferring small
// buffers (replay has to allocate them).
func (ex *Exec) smallModel(st *State, cond *Term) ([]NondetVal, bool) {
	var lens []*Term
	for _, nd := range st.nondet {
		if nd.kind == "bytes" && !nd.lenT.isConst {
			lens = append(lens, nd.lenT)
		}
	}
	bounds := []uint64{64, 2048, 65536, 0}
	if len(lens) == 0 {
		bounds = []uint64{0}
	}
	for _, b := range bounds {
		cs := []*Term{}
		if cond != nil {
			cs = append(cs, cond)
		}
		if b != 0 {
			for _, l := range lens {
				cs = append(cs, bvCmp("bvule", l, u64(int64(b))))
			}
		}
		r := ex.sol.CheckKeep(cs...)
		var m []NondetVal
		ok := false
		if r == "sat" {
			m, ok = ex.model(st)
		}
		ex.sol.Pop()
		if r == "sat" {
			return m, ok
		}
	}
	return nil, false
}

// check a potential panic / assertion. Returns false if the path cannot continue.
func (ex *Exec) check(st *State, bad *Term, kind, msg string, ins ssa.Instruction) bool {
	if bad.isConst && bad.v == 0 {
		return true
	}
	if bad.isConst {
		ex.recordViolation(st, kind, msg, ins, nil)
		return false
	}
	r := ex.sol.Check(bad)
	if r == "sat" {
		ex.recordViolation(st, kind, msg, ins, bad)
	} else if r == "unknown" {
		w, _ := ex.where(ins)
		ex.Unsupp["solver answered unknown for a "+kind+" query at "+w]++
	} else {
		return true // unsat: the negation is implied by the path condition
	}
	ok := tNot(bad)
	if ex.sol.Check(ok) == "unsat" {
		return false
	}
	ex.sol.Assert(ok)
	return true
}

// ---------------------------------------------------------------------------

func (ex *Exec) newState() *State {
	n := 0
	return &State{heap: map[int]*Obj{}, globals: map[*ssa.Global]int{}, nextObj: &n, ghost: map[string]Value{}}
}

func (ex *Exec) RunHarness(fn *ssa.Function) {
	ex.harness = fn.Name()
	st := ex.newState()
	ex.sol.Push()
	func() {
		defer func() {
			if r := recover(); r != nil {
				if e, ok := r.(execErr); ok {
					ex.Unsupp["init: "+e.msg]++
					return
				}
				panic(r)
			}
		}()
		ex.runInits(st)
	}()
	fr := &Frame{fn: fn, block: fn.Blocks[0], env: map[ssa.Value]Value{}, visits: map[int]int{}}
	st.frames = []*Frame{fr}
	ex.Funcs[fn.String()] = true
	ex.run(st)
	ex.sol.Pop()
}

func (ex *Exec) endPath(st *State, kind string) {
	ex.Paths++
	ex.PathEnds[kind]++
	if kind == "done" && len(st.events) > 0 {
		ex.traces = append(ex.traces, st.events)
	}
	if kind == "done" && ex.sampleBudget > 0 && ex.noFork == 0 {
		ex.sampleBudget--
		{
			if m, ok := ex.smallModel(st, nil); ok {
				ex.PathSamples = append(ex.PathSamples, map[string]interface{}{"harness": ex.harness, "path": ex.Paths, "ended": kind, "input_following_this_path": modelString(m)})
				ex.SampleModels = append(ex.SampleModels, m)
			}
		}
	}
	if ex.Paths >= ex.maxPaths {
		ex.stopped = true
	}
}

func (ex *Exec) note(st *State, s string) {
	st.notes = append(st.notes, s)
}

func (ex *Exec) run(st *State) {
	defer func() {
		if r := recover(); r != nil {
			if e, ok := r.(execErr); ok {
				msg := e.msg
				if len(st.frames) > 0 {
					fr := st.top()
					if fr.ip > 0 && fr.ip <= len(fr.block.Instrs) {
						w, _ := ex.where(fr.block.Instrs[fr.ip-1])
						msg += " @ " + w
					}
				}
				ex.Unsupp[msg]++
				ex.endPath(st, "unsupported")
				return
			}
			panic(r)
		}
	}()
	for {
		if ex.stopped {
			return
		}
		if len(st.frames) == 0 {
			ex.endPath(st, "done")
			return
		}
		fr := st.top()
		ins := fr.block.Instrs[fr.ip]
		fr.ip++
		ex.Instrs++
		if ex.trace {
			fmt.Fprintf(os.Stderr, "  [%d] %s: %v\n", len(st.frames), fr.fn.Name(), ins)
		}
		switch ins := ins.(type) {
		case *ssa.DebugRef:
		case *ssa.Alloc:
			elem := ins.Type().Underlying().(*types.Pointer).Elem()
			id := st.alloc(elem, zeroValue(elem))
			fr.env[ins] = PtrV{obj: id}
		case *ssa.FieldAddr:
			p := ex.eval(st, ins.X).(PtrV)
			if p.obj == 0 {
				ex.check(st, tTrue, "panic", "nil pointer dereference", ins)
				ex.endPath(st, "panic")
				return
			}
			fr.env[ins] = PtrV{obj: p.obj, path: extendPath(p.path, PathElem{field: ins.Field})}
		case *ssa.Field:
			s := ex.eval(st, ins.X).(StructV)
			fr.env[ins] = s.f[ins.Field]
		case *ssa.IndexAddr:
			if !ex.indexAddr(st, fr, ins) {
				return
			}
		case *ssa.Index:
			if !ex.index(st, fr, ins) {
				return
			}
		case *ssa.UnOp:
			if !ex.unop(st, fr, ins) {
				return
			}
		case *ssa.BinOp:
			if !ex.binop(st, fr, ins) {
				ex.endPath(st, "panic")
				return
			}
		case *ssa.Store:
			p := ex.eval(st, ins.Addr).(PtrV)
			if p.obj == 0 {
				ex.check(st, tTrue, "panic", "nil pointer dereference", ins)
				ex.endPath(st, "panic")
				return
			}
			ex.emitAccess(st, p, true)
			sv := ex.eval(st, ins.Val)
			if st.traceOn && st.isShared(p.obj) {
				ex.publish(st, sv)
			}
			st.store(p, sv)
		case *ssa.Convert:
			fr.env[ins] = ex.convert(st, ins)
		case *ssa.ChangeType:
			fr.env[ins] = ex.eval(st, ins.X)
		case *ssa.ChangeInterface:
			fr.env[ins] = ex.eval(st, ins.X)
		case *ssa.MakeInterface:
			fr.env[ins] = IfaceV{t: ins.X.Type(), v: ex.eval(st, ins.X)}
		case *ssa.TypeAssert:
			if !ex.typeAssert(st, fr, ins) {
				ex.endPath(st, "panic")
				return
			}
		case *ssa.Extract:
			fr.env[ins] = ex.eval(st, ins.Tuple).(TupleV)[ins.Index]
		case *ssa.Slice:
			if !ex.slice(st, fr, ins) {
				ex.endPath(st, "panic")
				return
			}
		case *ssa.MakeSlice:
			if !ex.makeSlice(st, fr, ins) {
				return
			}
		case *ssa.MakeMap:
			mt := ins.Type().Underlying().(*types.Map)
			id := st.alloc(ins.Type(), &MapV{kt: mt.Key(), vt: mt.Elem()})
			fr.env[ins] = MapRef{obj: id}
		case *ssa.MapUpdate:
			if !ex.mapUpdate(st, fr, ins) {
				return
			}
		case *ssa.Lookup:
			if !ex.lookup(st, fr, ins) {
				return
			}
		case *ssa.Range:
			fr.env[ins] = ex.rangeStart(st, ins)
		case *ssa.Next:
			fr.env[ins] = ex.rangeNext(st, fr, ins)
		case *ssa.MakeChan:
			sz := ex.eval(st, ins.Size).(*Term)
			if !sz.isConst {
				fail("make(chan) with symbolic size")
			}
			id := st.alloc(ins.Type(), &ChanV{cap: int(sz.v)})
			fr.env[ins] = ChanRef{obj: id}
		case *ssa.Send:
			if !ex.chanSend(st, fr, ins) {
				return
			}
		case *ssa.Select:
			if !ex.selectInstr(st, fr, ins) {
				return
			}
		case *ssa.Phi:
			fail("phi outside block entry")
		case *ssa.Jump:
			if !ex.jump(st, fr, fr.block.Succs[0]) {
				return
			}
		case *ssa.If:
			c := ex.eval(st, ins.Cond).(*Term)
			if c.isConst {
				idx := 1
				if c.v == 1 {
					idx = 0
				}
				if !ex.jump(st, fr, fr.block.Succs[idx]) {
					return
				}
				continue
			}
			ct := ex.feasible(c)
			cf := true
			if ct { // if the true side is infeasible the false side must be feasible (path condition is satisfiable)
				cf = ex.feasible(tNot(c))
			}
			switch {
			case ct && cf:
				if ex.noFork > 0 {
					fail("symbolic branch inside a synchronous call")
				}
				ex.Forks++
				if ex.ForkSites != nil {
					w, _ := ex.where(ins)
					ex.ForkSites[w]++
				}
				st2 := st.clone()
				ex.sol.Push()
				ex.sol.Assert(c)
				if ex.jump(st, fr, fr.block.Succs[0]) {
					ex.run(st)
				}
				ex.sol.Pop()
				ex.sol.Push()
				ex.sol.Assert(tNot(c))
				fr2 := st2.top()
				if ex.jump(st2, fr2, fr2.block.Succs[1]) {
					ex.run(st2)
				}
				ex.sol.Pop()
				return
			case ct:
				ex.sol.facts.Learn(c, true)
				if !ex.jump(st, fr, fr.block.Succs[0]) {
					return
				}
			case cf:
				ex.sol.facts.Learn(c, false)
				if !ex.jump(st, fr, fr.block.Succs[1]) {
					return
				}
			default:
				ex.Infeasible++
				ex.endPath(st, "infeasible")
				return
			}
		case *ssa.Return:
			var res Value
			switch len(ins.Results) {
			case 0:
				res = TupleV{}
			case 1:
				res = ex.eval(st, ins.Results[0])
			default:
				tv := make(TupleV, len(ins.Results))
				for i, r := range ins.Results {
					tv[i] = ex.eval(st, r)
				}
				res = tv
			}
			st.frames = st.frames[:len(st.frames)-1]
			if fr.onReturn != nil {
				fr.onReturn(st, res)
			} else if len(st.frames) > 0 && fr.call != nil {
				st.top().env[fr.call] = res
			}
			if fr.sync {
				st.ghost["$syncResult"] = res
				return
			}
		case *ssa.Call:
			if !ex.call(st, fr, ins.Common(), ins) {
				return
			}
		case *ssa.Defer:
			cc := ins.Common()
			d := deferred{call: cc}
			for _, a := range cc.Args {
				d.args = append(d.args, ex.eval(st, a))
			}
			if cc.IsInvoke() {
				recv := ex.eval(st, cc.Value).(IfaceV)
				if recv.t == nil {
					fail("deferred call on nil interface")
				}
				m := ex.prog.LookupMethod(recv.t, cc.Method.Pkg(), cc.Method.Name())
				d.fn = FuncV{fn: m}
				d.args = append([]Value{recv.v}, d.args...)
			} else if b, isB := cc.Value.(*ssa.Builtin); isB {
				d.builtin = b
			} else {
				d.fn = ex.eval(st, cc.Value)
			}
			fr.defers = append(fr.defers, d)
		case *ssa.RunDefers:
			if n := len(fr.defers); n > 0 {
				d := fr.defers[n-1]
				fr.defers = fr.defers[:n-1]
				fr.ip-- // come back here afterwards
				if d.builtin != nil {
					if d.builtin.Name() == "close" {
						ex.chanClose(st, d.args[0], ins)
						continue
					}
					fail("deferred builtin %s", d.builtin.Name())
				}
				fv, ok := d.fn.(FuncV)
				if !ok || fv.fn == nil {
					fail("deferred call of unsupported kind")
				}
				if !ex.dispatch(st, fr, fv, d.args, nil, ins) {
					return
				}
			}
		case *ssa.Panic:
			ex.check(st, tTrue, "panic", "explicit panic", ins)
			ex.endPath(st, "panic")
			return
		case *ssa.MakeClosure:
			fv := FuncV{fn: ins.Fn.(*ssa.Function)}
			for _, b := range ins.Bindings {
				fv.free = append(fv.free, ex.eval(st, b))
			}
			fr.env[ins] = fv
		case *ssa.Go:
			// goroutines are not started; the spawned call is recorded
			cc := ins.Common()
			name := "?"
			if f := cc.StaticCallee(); f != nil {
				name = f.String()
			}
			st.notes = append(st.notes, "go "+name)
			ex.Notes["go statement not started: "+name]++
		default:
			fail("unsupported instruction %T", ins)
		}
	}
}

func (ex *Exec) jump(st *State, fr *Frame, to *ssa.BasicBlock) bool {
	fr.visits[to.Index]++
	if fr.visits[to.Index] > ex.MaxVisit {
		ex.MaxVisit = fr.visits[to.Index]
	}
	if fr.visits[to.Index] > ex.unwind {
		ex.UnwindHit++
		w := fr.fn.String()
		ex.Notes["unwind bound hit in "+w]++
		ex.endPath(st, "unwind")
		return false
	}
	if len(ex.loopBounds) > 0 && fr.visits[to.Index] > 1 {
		for sfx, b := range ex.loopBounds {
			if fr.visits[to.Index] > b+1 && strings.HasSuffix(fr.fn.String(), sfx) && isLoopHeader(to) {
				ex.Notes[fmt.Sprintf("unwinding assumption: paths with more than %d iterations of a loop in %s are not explored", b, fr.fn.String())]++
				ex.endPath(st, "loop-bound")
				return false
			}
		}
	}
	if ex.progress != nil {
		if !ex.progressCheck(st, fr, to) {
			return false
		}
	}
	from := fr.block
	fr.prev = from
	fr.block = to
	fr.ip = 0
	// evaluate phis simultaneously
	var vals []Value
	var phis []*ssa.Phi
	for _, ins := range to.Instrs {
		phi, ok := ins.(*ssa.Phi)
		if !ok {
			break
		}
		idx := -1
		for i, p := range to.Preds {
			if p == from {
				idx = i
				break
			}
		}
		vals = append(vals, ex.eval(st, phi.Edges[idx]))
		phis = append(phis, phi)
	}
	for i, phi := range phis {
		fr.env[phi] = vals[i]
	}
	fr.ip = len(phis)
	return true
}

func (ex *Exec) globalObj(st *State, v *ssa.Global) int {
	id, ok := st.globals[v]
	if !ok {
		*st.nextObj++
		id = *st.nextObj
		st.globals[v] = id
	}
	if st.heap[id] == nil {
		elem := v.Type().Underlying().(*types.Pointer).Elem()
		st.heap[id] = &Obj{typ: elem, val: zeroValue(elem)}
	}
	return id
}

func (ex *Exec) eval(st *State, v ssa.Value) Value {
	switch v := v.(type) {
	case *ssa.Const:
		return ex.constValue(v)
	case *ssa.Global:
		return PtrV{obj: ex.globalObj(st, v)}
	case *ssa.Function:
		return FuncV{fn: v}
	case *ssa.Builtin:
		fail("builtin %s used as value", v.Name())
	}
	fr := st.top()
	if x, ok := fr.env[v]; ok {
		return x
	}
	fail("eval: no value for %s (%T) in %s", v.Name(), v, fr.fn.Name())
	return nil
}

func (ex *Exec) constValue(c *ssa.Const) Value {
	t := c.Type()
	if c.Value == nil {
		return zeroValue(t)
	}
	if w, _, ok := intInfo(t); ok {
		if i, exact := constant.Int64Val(constant.ToInt(c.Value)); exact {
			return bvConst(uint64(i), w)
		}
		u, _ := constant.Uint64Val(constant.ToInt(c.Value))
		return bvConst(u, w)
	}
	if isBool(t) {
		return boolConst(constant.BoolVal(c.Value))
	}
	if isString(t) {
		return litStr(constant.StringVal(c.Value))
	}
	if fw := floatWidth(t); fw != 0 {
		f, _ := constant.Float64Val(c.Value)
		return concreteFloat(f, fw)
	}
	fail("constant of type %s", t)
	return nil
}

// ---------------------------------------------------------------------------

func (ex *Exec) unop(st *State, fr *Frame, ins *ssa.UnOp) bool {
	x := ex.eval(st, ins.X)
	switch ins.Op {
	case token.MUL:
		p := x.(PtrV)
		if p.obj == 0 {
			ex.check(st, tTrue, "panic", "nil pointer dereference", ins)
			ex.endPath(st, "panic")
			return false
		}
		ex.emitAccess(st, p, false)
		v := st.load(p)
		// variables of packages outside the repository are not initialised (their init is
		// not run): error-typed ones are distinct opaque non-nil errors keyed by name
		if g, ok := ins.X.(*ssa.Global); ok && !ex.ld.isRepoPkg(g.Pkg) {
			if iv, ok := v.(IfaceV); ok && iv.t == nil && types.Identical(g.Type().Underlying().(*types.Pointer).Elem(), types.Universe.Lookup("error").Type()) {
				v = IfaceV{t: ex.opaqueErrT, v: OpaqueV{kind: "err", id: g.String()}}
			}
		}
		fr.env[ins] = v
	case token.NOT:
		fr.env[ins] = tNot(x.(*Term))
	case token.SUB:
		t := x.(*Term)
		fr.env[ins] = bvBin("bvsub", bvConst(0, t.w), t)
	case token.XOR:
		t := x.(*Term)
		fr.env[ins] = bvBin("bvxor", t, bvConst(^uint64(0), t.w))
	case token.ARROW:
		return ex.chanRecv(st, fr, ins)
	default:
		fail("unop %s", ins.Op)
	}
	return true
}

func (ex *Exec) binop(st *State, fr *Frame, ins *ssa.BinOp) bool {
	x := ex.eval(st, ins.X)
	y := ex.eval(st, ins.Y)
	switch xv := x.(type) {
	case *Term:
		yv := y.(*Term)
		if xv.w == 0 { // bool
			switch ins.Op {
			case token.EQL:
				fr.env[ins] = tEq(xv, yv)
			case token.NEQ:
				fr.env[ins] = tNot(tEq(xv, yv))
			case token.AND, token.LAND:
				fr.env[ins] = tAnd(xv, yv)
			case token.OR, token.LOR:
				fr.env[ins] = tOr(xv, yv)
			default:
				fail("bool binop %s", ins.Op)
			}
			return true
		}
		_, signed, _ := intInfo(ins.X.Type())
		var r *Term
		switch ins.Op {
		case token.ADD:
			r = bvBin("bvadd", xv, yv)
		case token.SUB:
			r = bvBin("bvsub", xv, yv)
		case token.MUL:
			r = bvBin("bvmul", xv, yv)
		case token.QUO, token.REM:
			if !ex.check(st, tEq(yv, bvConst(0, yv.w)), "panic", "integer divide by zero", ins) {
				return false
			}
			op := map[bool]map[token.Token]string{true: {token.QUO: "bvsdiv", token.REM: "bvsrem"}, false: {token.QUO: "bvudiv", token.REM: "bvurem"}}[signed][ins.Op]
			r = bvBin(op, xv, yv)
		case token.AND:
			r = bvBin("bvand", xv, yv)
		case token.OR:
			r = bvBin("bvor", xv, yv)
		case token.XOR:
			r = bvBin("bvxor", xv, yv)
		case token.AND_NOT:
			r = bvBin("bvand", xv, bvBin("bvxor", yv, bvConst(^uint64(0), yv.w)))
		case token.SHL, token.SHR:
			cnt := yv
			_, cntSigned, _ := intInfo(ins.Y.Type())
			if cntSigned {
				if !ex.check(st, bvCmp("bvslt", cnt, bvConst(0, cnt.w)), "panic", "negative shift amount", ins) {
					return false
				}
			}
			var big *Term = tFalse
			if cnt.w > xv.w {
				big = bvCmp("bvuge", cnt, bvConst(uint64(xv.w), cnt.w))
				cnt = bvExtract(xv.w-1, 0, cnt)
			} else {
				cnt = bvZext(cnt, xv.w)
				big = bvCmp("bvuge", cnt, bvConst(uint64(xv.w), xv.w))
			}
			if ins.Op == token.SHL {
				r = tIte(big, bvConst(0, xv.w), bvBin("bvshl", xv, cnt))
			} else if signed {
				fill := tIte(bvCmp("bvslt", xv, bvConst(0, xv.w)), bvConst(^uint64(0), xv.w), bvConst(0, xv.w))
				if cnt.isConst && xv.isConst {
					s := cnt.v
					if s >= uint64(xv.w) {
						s = uint64(xv.w - 1)
					}
					r = tIte(big, fill, bvConst(uint64(sext(xv.v, xv.w)>>s), xv.w))
				} else {
					r = tIte(big, fill, mk(xv.w, "bvashr", xv, cnt))
				}
			} else {
				r = tIte(big, bvConst(0, xv.w), bvBin("bvlshr", xv, cnt))
			}
		case token.EQL:
			r = tEq(xv, yv)
		case token.NEQ:
			r = tNot(tEq(xv, yv))
		case token.LSS, token.LEQ, token.GTR, token.GEQ:
			op := map[token.Token]string{token.LSS: "lt", token.LEQ: "le", token.GTR: "gt", token.GEQ: "ge"}[ins.Op]
			if signed {
				r = bvCmp("bvs"+op, xv, yv)
			} else {
				r = bvCmp("bvu"+op, xv, yv)
			}
		default:
			fail("int binop %s", ins.Op)
		}
		fr.env[ins] = r
	case StrV:
		yv := y.(StrV)
		switch ins.Op {
		case token.ADD:
			fr.env[ins] = xv.concat(yv)
		case token.EQL, token.NEQ:
			eq := ex.strEq(xv, yv)
			if ins.Op == token.NEQ {
				eq = tNot(eq)
			}
			fr.env[ins] = eq
		case token.LSS, token.LEQ, token.GTR, token.GEQ:
			a, ok1 := xv.concrete()
			b, ok2 := yv.concrete()
			if !ok1 || !ok2 {
				fail("ordered comparison of non-literal strings")
			}
			var r bool
			switch ins.Op {
			case token.LSS:
				r = a < b
			case token.LEQ:
				r = a <= b
			case token.GTR:
				r = a > b
			case token.GEQ:
				r = a >= b
			}
			fr.env[ins] = boolConst(r)
		default:
			fail("string binop %s", ins.Op)
		}
	default:
		switch ins.Op {
		case token.EQL, token.NEQ:
			eq := ex.valueEq(st, x, y)
			if ins.Op == token.NEQ {
				eq = tNot(eq)
			}
			fr.env[ins] = eq
		default:
			fail("binop %s on %T", ins.Op, x)
		}
	}
	return true
}

// valueEq is Go's == on two values of the same static type.
func (ex *Exec) valueEq(st *State, x, y Value) *Term {
	switch xv := x.(type) {
	case *Term:
		return tEq(xv, y.(*Term))
	case StrV:
		return ex.strEq(xv, y.(StrV))
	case FloatV:
		yv := y.(FloatV)
		if xv.bits.isConst && yv.bits.isConst && xv.w == yv.w {
			return boolConst(xv.bits.v == yv.bits.v) // (ignores NaN/-0; concrete only)
		}
		fail("float comparison")
	case IfaceV:
		yv := y.(IfaceV)
		switch {
		case xv.t == nil || yv.t == nil:
			return boolConst(xv.t == nil && yv.t == nil)
		case !types.Identical(xv.t, yv.t):
			return tFalse
		default:
			if _, isS := xv.t.Underlying().(*types.Slice); isS {
				fail("comparing uncomparable interface values")
			}
			return ex.valueEq(st, xv.v, yv.v)
		}
	case OpaqueV:
		yv, ok := y.(OpaqueV)
		return boolConst(ok && xv == yv)
	case PtrV:
		yv := y.(PtrV)
		return boolConst(xv.obj == yv.obj && pathString(xv.path) == pathString(yv.path))
	case SliceV:
		yv := y.(SliceV)
		if xv.obj != 0 && yv.obj != 0 {
			fail("slice comparison")
		}
		return boolConst(xv.obj == 0 && yv.obj == 0)
	case MapRef:
		yv := y.(MapRef)
		return boolConst(xv.obj == yv.obj)
	case ChanRef:
		yv := y.(ChanRef)
		return boolConst(xv.obj == yv.obj)
	case FuncV:
		yv := y.(FuncV)
		return boolConst(xv.fn == nil && yv.fn == nil)
	case StructV:
		yv := y.(StructV)
		r := tTrue
		for i := range xv.f {
			r = tAnd(r, ex.valueEq(st, xv.f[i], yv.f[i]))
		}
		return r
	case ArrV:
		yv := y.(ArrV)
		r := tTrue
		for i := range xv.e {
			r = tAnd(r, ex.valueEq(st, xv.e[i], yv.e[i]))
		}
		return r
	case BytesV:
		yv := y.(BytesV)
		if !xv.n.isConst {
			fail("array comparison with symbolic length")
		}
		r := tTrue
		for i := uint64(0); i < xv.n.v; i++ {
			r = tAnd(r, tEq(xv.a.sel(u64(int64(i))), yv.a.sel(u64(int64(i)))))
		}
		return r
	}
	fail("== on %T", x)
	return nil
}

func pathString(p []PathElem) string {
	var sb strings.Builder
	for _, e := range p {
		if e.idx != nil {
			sb.WriteString("[" + e.idx.s + "]")
		} else {
			fmt.Fprintf(&sb, ".%d", e.field)
		}
	}
	return sb.String()
}

func (ex *Exec) convert(st *State, ins *ssa.Convert) Value {
	x := ex.eval(st, ins.X)
	dt, st0 := ins.Type(), ins.X.Type()
	if dw, _, ok := intInfo(dt); ok {
		if _, ss, ok2 := intInfo(st0); ok2 {
			return bvConv(x.(*Term), ss, dw)
		}
		if fv, isF := x.(FloatV); isF {
			if fv.bits.isConst {
				return bvConst(uint64(int64(floatFromBits(fv))), dw)
			}
			fail("convert symbolic float to integer")
		}
	}
	if fw := floatWidth(dt); fw != 0 {
		if fv, isF := x.(FloatV); isF {
			if fv.bits.isConst {
				return concreteFloat(floatFromBits(fv), fw)
			}
			if fw >= fv.w {
				return fv // widening keeps the origin pattern
			}
			fail("narrowing conversion of symbolic float")
		}
		if t, isT := x.(*Term); isT && t.isConst {
			_, ss, _ := intInfo(st0)
			if ss {
				return concreteFloat(float64(sext(t.v, t.w)), fw)
			}
			return concreteFloat(float64(t.v), fw)
		}
		fail("convert %s -> %s (symbolic)", st0, dt)
	}
	if isString(dt) {
		switch xv := x.(type) {
		case SliceV:
			return ex.bytesToString(st, xv)
		case RopeRef:
			return ex.ropeOf(st, xv)
		case *Term:
			if xv.isConst {
				return litStr(string(rune(xv.v)))
			}
		}
	}
	if sl, ok := dt.Underlying().(*types.Slice); ok && isString(st0) {
		if w, _, okw := intInfo(sl.Elem()); okw && w == 8 {
			return ex.stringToBytes(st, x.(StrV))
		}
	}
	if _, ok := dt.Underlying().(*types.Pointer); ok {
		return x
	}
	if b, ok := dt.Underlying().(*types.Basic); ok && b.Kind() == types.UnsafePointer {
		return x
	}
	fail("convert %s -> %s", st0, dt)
	return nil
}

func (ex *Exec) typeAssert(st *State, fr *Frame, ins *ssa.TypeAssert) bool {
	x := ex.eval(st, ins.X).(IfaceV)
	var ok bool
	if x.t != nil {
		if it, isI := ins.AssertedType.Underlying().(*types.Interface); isI {
			ok = types.Implements(x.t, it)
		} else {
			ok = types.Identical(x.t, ins.AssertedType)
		}
	}
	var val Value
	if ok {
		if _, isI := ins.AssertedType.Underlying().(*types.Interface); isI {
			val = x
		} else {
			val = x.v
		}
	} else {
		val = zeroValue(ins.AssertedType)
	}
	if ins.CommaOk {
		fr.env[ins] = TupleV{val, boolConst(ok)}
		return true
	}
	if !ok {
		ex.check(st, tTrue, "panic", "failed type assertion", ins)
		return false
	}
	fr.env[ins] = val
	return true
}

// container returns the array value a slice points into.
func (st *State) container(s SliceV) Value {
	return getPath(st.heap[s.obj].val, s.path)
}

// forkOnValues explores the feasible concrete values of t (at most max); cont is
// called with the path specialised to each value. Always returns false.
func (ex *Exec) forkOnValues(st *State, t *Term, max int, what string, cont func(st *State, v uint64) bool) bool {
	var vals []uint64
	// small values first, without reading models (model evaluation over array-heavy path
	// conditions can be very slow in z3): if t < max is implied, probe 0..max-1 one by one
	if ex.sol.Check(bvCmp("bvuge", t, bvConst(uint64(max), t.w))) == "unsat" {
		for v := 0; v < max; v++ {
			if ex.sol.Check(tEq(t, bvConst(uint64(v), t.w))) != "unsat" {
				vals = append(vals, uint64(v))
			}
		}
		return ex.forkOnList(st, t, vals, cont)
	}
	ex.sol.Push()
	for len(vals) <= max {
		if ex.sol.Check() != "sat" {
			break
		}
		vs := ex.sol.GetValues([]string{t.s})
		v, ok := parseBV(vs[0])
		if !ok {
			ex.sol.Pop()
			fail("cannot read model value for %s", what)
		}
		vals = append(vals, v)
		ex.sol.Assert(tNot(tEq(t, bvConst(v, t.w))))
	}
	ex.sol.Pop()
	if len(vals) > max {
		fail("more than %d feasible values for %s", max, what)
	}
	sort.Slice(vals, func(i, j int) bool { return vals[i] < vals[j] })
	return ex.forkOnList(st, t, vals, cont)
}

func (ex *Exec) forkOnList(st *State, t *Term, vals []uint64, cont func(st *State, v uint64) bool) bool {
	if ex.noFork > 0 && len(vals) > 1 {
		fail("fork inside a synchronous call")
	}
	if len(vals) == 0 {
		ex.Infeasible++
		ex.endPath(st, "infeasible")
		return false
	}
	for i, v := range vals {
		s := st
		if i < len(vals)-1 {
			s = st.clone()
			ex.Forks++
		}
		ex.sol.Push()
		ex.sol.Assert(tEq(t, bvConst(v, t.w)))
		if cont(s, v) {
			ex.run(s)
		}
		ex.sol.Pop()
	}
	return false
}

func (ex *Exec) indexAddr(st *State, fr *Frame, ins *ssa.IndexAddr) bool {
	x := ex.eval(st, ins.X)
	i := ex.eval(st, ins.Index).(*Term)
	_, isigned, _ := intInfo(ins.Index.Type())
	i = bvConv(i, isigned, 64)
	var base PtrV
	var off, n *Term
	switch xv := x.(type) {
	case SliceV:
		base, off, n = PtrV{obj: xv.obj, path: xv.path}, xv.off, xv.len
	case PtrV: // pointer to array
		if xv.obj == 0 {
			ex.check(st, tTrue, "panic", "nil pointer dereference", ins)
			ex.endPath(st, "panic")
			return false
		}
		base, off = xv, u64(0)
		n = u64(ins.X.Type().Underlying().(*types.Pointer).Elem().Underlying().(*types.Array).Len())
	default:
		fail("IndexAddr on %T", x)
	}
	if !ex.check(st, bvCmp("bvuge", i, n), "panic", "index out of range", ins) {
		ex.endPath(st, "panic")
		return false
	}
	idx := bvBin("bvadd", off, i)
	if !idx.isConst && base.obj != 0 {
		if _, composite := getPath(st.heap[base.obj].val, base.path).(ArrV); composite {
			// symbolic index into a host-side vector: case split
			bound := 64
			if n.isConst && off.isConst && off.v+n.v <= 4096 {
				bound = int(off.v + n.v) // the index was just shown to be below the length
			}
			return ex.forkOnValues(st, idx, bound, "index into composite slice", func(s *State, v uint64) bool {
				s.top().env[ins] = PtrV{obj: base.obj, path: extendPath(base.path, PathElem{idx: u64(int64(v))})}
				return true
			})
		}
	}
	fr.env[ins] = PtrV{obj: base.obj, path: extendPath(base.path, PathElem{idx: idx})}
	return true
}

func (ex *Exec) index(st *State, fr *Frame, ins *ssa.Index) bool {
	x := ex.eval(st, ins.X)
	i := ex.eval(st, ins.Index).(*Term)
	_, isigned, _ := intInfo(ins.Index.Type())
	i = bvConv(i, isigned, 64)
	switch xv := x.(type) {
	case StrV:
		s, ok := xv.concrete()
		if !ok {
			fail("index into non-literal string")
		}
		if !ex.check(st, bvCmp("bvuge", i, u64(int64(len(s)))), "panic", "index out of range", ins) {
			ex.endPath(st, "panic")
			return false
		}
		if !i.isConst {
			// a lookup table ("0123456789abcdef"[n] and the like): one ite per character
			if len(s) > 256 {
				fail("symbolic index into a string of %d characters", len(s))
			}
			v := bvConst(uint64(s[len(s)-1]), 8)
			for k := len(s) - 2; k >= 0; k-- {
				v = tIte(tEq(i, u64(int64(k))), bvConst(uint64(s[k]), 8), v)
			}
			fr.env[ins] = v
			break
		}
		fr.env[ins] = bvConst(uint64(s[i.v]), 8)
	case ArrV:
		if !ex.check(st, bvCmp("bvuge", i, u64(int64(len(xv.e)))), "panic", "index out of range", ins) {
			ex.endPath(st, "panic")
			return false
		}
		if !i.isConst {
			fail("symbolic index into array value")
		}
		fr.env[ins] = xv.e[i.v]
	case BytesV:
		if !ex.check(st, bvCmp("bvuge", i, xv.n), "panic", "index out of range", ins) {
			ex.endPath(st, "panic")
			return false
		}
		fr.env[ins] = xv.a.sel(i)
	default:
		fail("Index on %T", x)
	}
	return true
}

func (ex *Exec) slice(st *State, fr *Frame, ins *ssa.Slice) bool {
	x := ex.eval(st, ins.X)
	conv := func(v ssa.Value, def *Term) *Term {
		if v == nil {
			return def
		}
		_, sg, _ := intInfo(v.Type())
		return bvConv(ex.eval(st, v).(*Term), sg, 64)
	}
	var base SliceV
	switch xv := x.(type) {
	case SliceV:
		base = xv
	case PtrV:
		n := ins.X.Type().Underlying().(*types.Pointer).Elem().Underlying().(*types.Array).Len()
		if xv.obj == 0 {
			ex.check(st, tTrue, "panic", "nil pointer dereference", ins)
			return false
		}
		base = SliceV{obj: xv.obj, path: xv.path, off: u64(0), len: u64(n), cap: u64(n)}
	case StrV:
		s, ok := xv.concrete()
		if !ok {
			fail("slicing a non-literal string")
		}
		lo := conv(ins.Low, u64(0))
		hi := conv(ins.High, u64(int64(len(s))))
		if !lo.isConst || !hi.isConst {
			fail("slicing a string with symbolic bounds")
		}
		if lo.v > hi.v || hi.v > uint64(len(s)) {
			ex.check(st, tTrue, "panic", "slice bounds out of range", ins)
			return false
		}
		fr.env[ins] = litStr(s[lo.v:hi.v])
		return true
	case RopeRef:
		fail("slicing the result of Buffer.Bytes()")
	default:
		fail("Slice of %T", x)
	}
	lo := conv(ins.Low, u64(0))
	hi := conv(ins.High, base.len)
	mx := conv(ins.Max, base.cap)
	bad := tOr(bvCmp("bvugt", mx, base.cap), tOr(bvCmp("bvugt", hi, mx), bvCmp("bvugt", lo, hi)))
	if !ex.check(st, bad, "panic", "slice bounds out of range", ins) {
		return false
	}
	fr.env[ins] = SliceV{obj: base.obj, path: base.path, off: bvBin("bvadd", base.off, lo), len: bvBin("bvsub", hi, lo), cap: bvBin("bvsub", mx, lo)}
	return true
}

func (ex *Exec) makeSlice(st *State, fr *Frame, ins *ssa.MakeSlice) bool {
	elem := ins.Type().Underlying().(*types.Slice).Elem()
	_, ls, _ := intInfo(ins.Len.Type())
	n := bvConv(ex.eval(st, ins.Len).(*Term), ls, 64)
	_, cs, _ := intInfo(ins.Cap.Type())
	c := bvConv(ex.eval(st, ins.Cap).(*Term), cs, 64)
	// the runtime panics for negative or absurd lengths; anything above 2^31 elements is
	// treated as "len out of range" (it is at least an allocation the datagram cannot justify)
	bad := tOr(bvCmp("bvugt", n, u64(1<<31)), bvCmp("bvugt", n, c))
	if !ex.check(st, bad, "panic", "makeslice: len out of range", ins) {
		ex.endPath(st, "panic")
		return false
	}
	if ex.allocBound != nil {
		if !ex.check(st, bvCmp("bvugt", c, ex.allocBound), "alloc", "allocation larger than the bound derived from the datagram size", ins) {
			ex.endPath(st, "alloc")
			return false
		}
	}
	if w, _, ok := intInfo(elem); ok {
		id := st.alloc(types.NewArray(elem, 0), BytesV{a: &ArrExpr{kind: 1, w: w}, n: c, w: w})
		fr.env[ins] = SliceV{obj: id, off: u64(0), len: n, cap: c}
		return true
	}
	if !c.isConst {
		return ex.forkOnValues(st, c, 64, "capacity of a composite make", func(s *State, v uint64) bool {
			a := ArrV{e: make([]Value, v)}
			for i := range a.e {
				a.e[i] = zeroValue(elem)
			}
			id := s.alloc(types.NewArray(elem, int64(v)), a)
			s.top().env[ins] = SliceV{obj: id, off: u64(0), len: n, cap: u64(int64(v))}
			return true
		})
	}
	a := ArrV{e: make([]Value, c.v)}
	for i := range a.e {
		a.e[i] = zeroValue(elem)
	}
	id := st.alloc(types.NewArray(elem, int64(c.v)), a)
	fr.env[ins] = SliceV{obj: id, off: u64(0), len: n, cap: c}
	return true
}
