package main

import (
	"fmt"
	"go/constant"
	"go/token"
	"go/types"
	"strings"

	"golang.org/x/tools/go/ssa"
)

type Violation struct {
	Kind  string
	Msg   string
	Where string
	Model map[string]string
}

type Exec struct {
	prog       *ssa.Program
	sol        *Solver
	unwind     int
	nSym       int
	Paths      int
	Instrs     int
	Forks      int
	Unsupp     map[string]int
	UnwindHit  int
	Infeasible int
	Violations []Violation
	seenViol   map[string]bool
	opaqueErrT types.Type
	maxViol    int
	MaxVisit   int
	trace      bool
}

func NewExec(prog *ssa.Program, sol *Solver, unwind int) *Exec {
	// synthetic dynamic type for errors produced by fmt.Errorf / errors.New
	errIface := types.Universe.Lookup("error").Type().Underlying().(*types.Interface)
	sig := errIface.Method(0).Type().(*types.Signature)
	tn := types.NewTypeName(token.NoPos, nil, "opaqueError", nil)
	named := types.NewNamed(tn, types.NewStruct(nil, nil), nil)
	recv := types.NewVar(token.NoPos, nil, "e", named)
	named.AddMethod(types.NewFunc(token.NoPos, nil, "Error", types.NewSignatureType(recv, nil, nil, sig.Params(), sig.Results(), false)))
	return &Exec{prog: prog, sol: sol, unwind: unwind, Unsupp: map[string]int{}, seenViol: map[string]bool{}, opaqueErrT: named, maxViol: 20}
}

func (ex *Exec) fresh(prefix string, w int) *Term {
	ex.nSym++
	n := fmt.Sprintf("%s!%d", prefix, ex.nSym)
	ex.sol.Declare(n, sortOf(w))
	return &Term{s: n, w: w}
}

func (ex *Exec) feasible(c *Term) bool {
	if c.isConst {
		return c.v == 1
	}
	return ex.sol.Check(c) != "unsat"
}

func (ex *Exec) where(st *State, ins ssa.Instruction) string {
	p := ex.prog.Fset.Position(ins.Pos())
	fn := ins.Parent()
	if !p.IsValid() && len(st.frames) > 0 {
		return fn.String()
	}
	return fmt.Sprintf("%s (%s:%d)", fn.String(), p.Filename, p.Line)
}

func (ex *Exec) recordViolation(st *State, kind, msg, where string, cond *Term) {
	key := kind + "|" + where + "|" + msg
	if ex.seenViol[key] {
		return
	}
	ex.seenViol[key] = true
	v := Violation{Kind: kind, Msg: msg, Where: where, Model: map[string]string{}}
	// extract model
	ex.sol.Push()
	if cond != nil {
		ex.sol.Assert(cond)
	}
	if ex.sol.Check() == "sat" {
		for _, nd := range st.nondet {
			switch nd.kind {
			case "bytes":
				lv := ex.sol.GetValues([]string{nd.lenT.s})[nd.lenT.s]
				v.Model[nd.name+".len"] = lv
				var n uint64
				fmt.Sscanf(strings.TrimPrefix(lv, "#x"), "%x", &n)
				if n > 96 {
					n = 96
				}
				var sb strings.Builder
				for i := uint64(0); i < n; i++ {
					q := fmt.Sprintf("(select %s #x%016x)", nd.name, i)
					b := ex.sol.GetValues([]string{q})[q]
					sb.WriteString(strings.TrimPrefix(b, "#x"))
				}
				v.Model[nd.name] = sb.String()
			default:
				v.Model[nd.name] = ex.sol.GetValues([]string{nd.name})[nd.name]
			}
		}
	}
	ex.sol.Pop()
	ex.Violations = append(ex.Violations, v)
}

// check a potential panic / assertion. Returns false if the path cannot continue.
func (ex *Exec) check(st *State, bad *Term, kind, msg string, ins ssa.Instruction) bool {
	if bad.isConst && bad.v == 0 {
		return true
	}
	where := ex.where(st, ins)
	if bad.isConst {
		ex.recordViolation(st, kind, msg, where, nil)
		return false
	}
	r := ex.sol.Check(bad)
	if r == "sat" {
		ex.recordViolation(st, kind, msg, where, bad)
	} else if r == "unknown" {
		ex.Unsupp["unknown verdict at "+where]++
	}
	ok := tNot(bad)
	if ex.sol.Check(ok) == "unsat" {
		return false
	}
	ex.sol.Assert(ok)
	return true
}

// ---------------------------------------------------------------------------

func (ex *Exec) RunHarness(fn *ssa.Function) {
	n := 0
	st := &State{heap: map[int]*Obj{}, globals: map[*ssa.Global]int{}, nextObj: &n, reached: map[string]bool{}}
	fr := &Frame{fn: fn, block: fn.Blocks[0], env: map[ssa.Value]Value{}, visits: map[int]int{}}
	st.frames = []*Frame{fr}
	ex.sol.Push()
	ex.run(st)
	ex.sol.Pop()
}

func (ex *Exec) endPath(kind string) {
	ex.Paths++
	_ = kind
}

func (ex *Exec) run(st *State) {
	defer func() {
		if r := recover(); r != nil {
			if e, ok := r.(execErr); ok {
				ex.Unsupp[e.msg]++
				ex.Paths++
				return
			}
			panic(r)
		}
	}()
	for {
		if len(st.frames) == 0 {
			ex.endPath("done")
			return
		}
		fr := st.top()
		ins := fr.block.Instrs[fr.ip]
		fr.ip++
		ex.Instrs++
		if ex.trace {
			fmt.Printf("  [%d] %s: %v\n", len(st.frames), fr.fn.Name(), ins)
		}
		switch ins := ins.(type) {
		case *ssa.DebugRef:
		case *ssa.Alloc:
			elem := ins.Type().Underlying().(*types.Pointer).Elem()
			id := st.alloc(elem, zeroValue(elem))
			fr.env[ins] = PtrV{obj: id}
		case *ssa.FieldAddr:
			p := ex.eval(st, ins.X).(PtrV)
			if p.obj == 0 {
				ex.check(st, tTrue, "panic", "nil pointer dereference", ins)
				ex.endPath("panic")
				return
			}
			fr.env[ins] = PtrV{obj: p.obj, path: extendPath(p.path, PathElem{field: ins.Field})}
		case *ssa.Field:
			s := ex.eval(st, ins.X).(StructV)
			fr.env[ins] = s.f[ins.Field]
		case *ssa.IndexAddr:
			if !ex.indexAddr(st, fr, ins) {
				ex.endPath("panic")
				return
			}
		case *ssa.Index:
			fail("Index instruction")
		case *ssa.UnOp:
			if !ex.unop(st, fr, ins) {
				ex.endPath("panic")
				return
			}
		case *ssa.BinOp:
			if !ex.binop(st, fr, ins) {
				ex.endPath("panic")
				return
			}
		case *ssa.Store:
			p := ex.eval(st, ins.Addr).(PtrV)
			if p.obj == 0 {
				ex.check(st, tTrue, "panic", "nil pointer dereference", ins)
				ex.endPath("panic")
				return
			}
			st.store(p, ex.eval(st, ins.Val))
		case *ssa.Convert:
			fr.env[ins] = ex.convert(st, ins)
		case *ssa.ChangeType:
			fr.env[ins] = ex.eval(st, ins.X)
		case *ssa.ChangeInterface:
			fr.env[ins] = ex.eval(st, ins.X)
		case *ssa.MakeInterface:
			fr.env[ins] = IfaceV{t: ins.X.Type(), v: ex.eval(st, ins.X)}
		case *ssa.TypeAssert:
			if !ex.typeAssert(st, fr, ins) {
				ex.endPath("panic")
				return
			}
		case *ssa.Extract:
			fr.env[ins] = ex.eval(st, ins.Tuple).(TupleV)[ins.Index]
		case *ssa.Slice:
			if !ex.slice(st, fr, ins) {
				ex.endPath("panic")
				return
			}
		case *ssa.MakeSlice:
			if !ex.makeSlice(st, fr, ins) {
				ex.endPath("panic")
				return
			}
		case *ssa.Phi:
			fail("phi outside block entry")
		case *ssa.Jump:
			if !ex.jump(st, fr, fr.block.Succs[0]) {
				return
			}
		case *ssa.If:
			c := ex.eval(st, ins.Cond).(*Term)
			if c.isConst {
				idx := 1
				if c.v == 1 {
					idx = 0
				}
				if !ex.jump(st, fr, fr.block.Succs[idx]) {
					return
				}
				continue
			}
			c = ex.sol.Name(c)
			ct := ex.feasible(c)
			cf := true
			if ct { // if the true side is infeasible the false side must be feasible (path condition is satisfiable)
				cf = ex.feasible(tNot(c))
			}
			switch {
			case ct && cf:
				ex.Forks++
				st2 := st.clone()
				ex.sol.Push()
				ex.sol.Assert(c)
				if ex.jump(st, fr, fr.block.Succs[0]) {
					ex.run(st)
				}
				ex.sol.Pop()
				ex.sol.Push()
				ex.sol.Assert(tNot(c))
				fr2 := st2.top()
				if ex.jump(st2, fr2, fr2.block.Succs[1]) {
					ex.run(st2)
				}
				ex.sol.Pop()
				return
			case ct:
				if !ex.jump(st, fr, fr.block.Succs[0]) {
					return
				}
			case cf:
				if !ex.jump(st, fr, fr.block.Succs[1]) {
					return
				}
			default:
				ex.Infeasible++
				return
			}
		case *ssa.Return:
			var res Value
			switch len(ins.Results) {
			case 0:
				res = TupleV{}
			case 1:
				res = ex.eval(st, ins.Results[0])
			default:
				tv := make(TupleV, len(ins.Results))
				for i, r := range ins.Results {
					tv[i] = ex.eval(st, r)
				}
				res = tv
			}
			st.frames = st.frames[:len(st.frames)-1]
			if len(st.frames) > 0 && fr.call != nil {
				st.top().env[fr.call] = res
			}
		case *ssa.Call:
			if !ex.call(st, fr, ins.Common(), ins) {
				return
			}
		case *ssa.Defer:
			cc := ins.Common()
			d := deferred{call: cc}
			for _, a := range cc.Args {
				d.args = append(d.args, ex.eval(st, a))
			}
			if !cc.IsInvoke() {
				if _, isB := cc.Value.(*ssa.Builtin); !isB {
					d.fn = ex.eval(st, cc.Value)
				}
			}
			fr.defers = append(fr.defers, d)
		case *ssa.RunDefers:
			if n := len(fr.defers); n > 0 {
				d := fr.defers[n-1]
				fr.defers = fr.defers[:n-1]
				fr.ip-- // come back here afterwards
				fv, ok := d.fn.(FuncV)
				if !ok || fv.fn == nil {
					fail("deferred call of unsupported kind")
				}
				if !ex.enter(st, fv, d.args, nil, ins) {
					return
				}
			}
		case *ssa.Panic:
			ex.check(st, tTrue, "panic", "explicit panic", ins)
			ex.endPath("panic")
			return
		case *ssa.MakeClosure:
			fv := FuncV{fn: ins.Fn.(*ssa.Function)}
			for _, b := range ins.Bindings {
				fv.free = append(fv.free, ex.eval(st, b))
			}
			fr.env[ins] = fv
		case *ssa.Go:
			// goroutines are not started; recorded only
		default:
			fail("unsupported instruction %T", ins)
		}
	}
}

func (ex *Exec) jump(st *State, fr *Frame, to *ssa.BasicBlock) bool {
	fr.visits[to.Index]++
	if fr.visits[to.Index] > ex.MaxVisit {
		ex.MaxVisit = fr.visits[to.Index]
	}
	if fr.visits[to.Index] > ex.unwind {
		ex.UnwindHit++
		ex.endPath("unwind")
		return false
	}
	from := fr.block
	fr.prev = from
	fr.block = to
	fr.ip = 0
	// evaluate phis simultaneously
	var vals []Value
	var phis []*ssa.Phi
	for _, ins := range to.Instrs {
		phi, ok := ins.(*ssa.Phi)
		if !ok {
			break
		}
		idx := -1
		for i, p := range to.Preds {
			if p == from {
				idx = i
				break
			}
		}
		vals = append(vals, ex.eval(st, phi.Edges[idx]))
		phis = append(phis, phi)
	}
	for i, phi := range phis {
		fr.env[phi] = vals[i]
	}
	fr.ip = len(phis)
	return true
}

func (ex *Exec) eval(st *State, v ssa.Value) Value {
	switch v := v.(type) {
	case *ssa.Const:
		return ex.constValue(v)
	case *ssa.Global:
		id, ok := st.globals[v]
		if !ok {
			*st.nextObj++
			id = *st.nextObj
			st.globals[v] = id
		}
		if st.heap[id] == nil {
			elem := v.Type().Underlying().(*types.Pointer).Elem()
			st.heap[id] = &Obj{typ: elem, val: zeroValue(elem)}
		}
		return PtrV{obj: id}
	case *ssa.Function:
		return FuncV{fn: v}
	}
	fr := st.top()
	if x, ok := fr.env[v]; ok {
		return x
	}
	if fv, ok := v.(*ssa.FreeVar); ok {
		_ = fv
	}
	fail("eval: no value for %s (%T) in %s", v.Name(), v, fr.fn.Name())
	return nil
}

func (ex *Exec) constValue(c *ssa.Const) Value {
	t := c.Type()
	if c.Value == nil {
		return zeroValue(t)
	}
	if w, _, ok := intInfo(t); ok {
		if i, exact := constant.Int64Val(constant.ToInt(c.Value)); exact {
			return bvConst(uint64(i), w)
		}
		u, _ := constant.Uint64Val(constant.ToInt(c.Value))
		return bvConst(u, w)
	}
	if isBool(t) {
		return boolConst(constant.BoolVal(c.Value))
	}
	if isString(t) {
		return StrV{segs: []Seg{{lit: constant.StringVal(c.Value)}}}
	}
	fail("constant of type %s", t)
	return nil
}

// ---------------------------------------------------------------------------

func (ex *Exec) unop(st *State, fr *Frame, ins *ssa.UnOp) bool {
	x := ex.eval(st, ins.X)
	switch ins.Op {
	case token.MUL:
		p := x.(PtrV)
		if p.obj == 0 {
			ex.check(st, tTrue, "panic", "nil pointer dereference", ins)
			return false
		}
		v := st.load(p)
		// globals of type error that were never initialised (package init is not
		// run in the spike) are opaque non-nil errors
		if g, ok := ins.X.(*ssa.Global); ok {
			if iv, ok := v.(IfaceV); ok && iv.t == nil && types.Identical(g.Type().Underlying().(*types.Pointer).Elem(), types.Universe.Lookup("error").Type()) {
				v = IfaceV{t: ex.opaqueErrT, v: OpaqueV{kind: "err", id: g.String()}}
			}
		}
		fr.env[ins] = v
	case token.NOT:
		fr.env[ins] = tNot(x.(*Term))
	case token.SUB:
		t := x.(*Term)
		fr.env[ins] = bvBin("bvsub", bvConst(0, t.w), t)
	case token.XOR:
		t := x.(*Term)
		fr.env[ins] = bvBin("bvxor", t, bvConst(^uint64(0), t.w))
	default:
		fail("unop %s", ins.Op)
	}
	return true
}

func (ex *Exec) binop(st *State, fr *Frame, ins *ssa.BinOp) bool {
	x := ex.eval(st, ins.X)
	y := ex.eval(st, ins.Y)
	switch xv := x.(type) {
	case *Term:
		yv := y.(*Term)
		if xv.w == 0 { // bool
			switch ins.Op {
			case token.EQL:
				fr.env[ins] = tEq(xv, yv)
			case token.NEQ:
				fr.env[ins] = tNot(tEq(xv, yv))
			default:
				fail("bool binop %s", ins.Op)
			}
			return true
		}
		_, signed, _ := intInfo(ins.X.Type())
		var r *Term
		switch ins.Op {
		case token.ADD:
			r = bvBin("bvadd", xv, yv)
		case token.SUB:
			r = bvBin("bvsub", xv, yv)
		case token.MUL:
			r = bvBin("bvmul", xv, yv)
		case token.QUO, token.REM:
			if !ex.check(st, tEq(yv, bvConst(0, yv.w)), "panic", "integer divide by zero", ins) {
				return false
			}
			op := map[bool]map[token.Token]string{true: {token.QUO: "bvsdiv", token.REM: "bvsrem"}, false: {token.QUO: "bvudiv", token.REM: "bvurem"}}[signed][ins.Op]
			r = bvBin(op, xv, yv)
		case token.AND:
			r = bvBin("bvand", xv, yv)
		case token.OR:
			r = bvBin("bvor", xv, yv)
		case token.XOR:
			r = bvBin("bvxor", xv, yv)
		case token.AND_NOT:
			r = bvBin("bvand", xv, bvBin("bvxor", yv, bvConst(^uint64(0), yv.w)))
		case token.SHL, token.SHR:
			cnt := yv
			var big *Term = tFalse
			if cnt.w > xv.w {
				big = bvCmp("bvuge", cnt, bvConst(uint64(xv.w), cnt.w))
				cnt = bvExtract(xv.w-1, 0, cnt)
			} else {
				cnt = bvZext(cnt, xv.w)
			}
			if ins.Op == token.SHL {
				r = tIte(big, bvConst(0, xv.w), bvBin("bvshl", xv, cnt))
			} else if signed {
				fill := tIte(bvCmp("bvslt", xv, bvConst(0, xv.w)), bvConst(^uint64(0), xv.w), bvConst(0, xv.w))
				if cnt.isConst && xv.isConst {
					s := cnt.v
					if s >= uint64(xv.w) {
						s = uint64(xv.w - 1)
					}
					r = tIte(big, fill, bvConst(uint64(sext(xv.v, xv.w)>>s), xv.w))
				} else {
					r = tIte(big, fill, mk(xv.w, "bvashr", xv, cnt))
				}
			} else {
				r = tIte(big, bvConst(0, xv.w), bvBin("bvlshr", xv, cnt))
			}
		case token.EQL:
			r = tEq(xv, yv)
		case token.NEQ:
			r = tNot(tEq(xv, yv))
		case token.LSS, token.LEQ, token.GTR, token.GEQ:
			op := map[token.Token]string{token.LSS: "lt", token.LEQ: "le", token.GTR: "gt", token.GEQ: "ge"}[ins.Op]
			if signed {
				r = bvCmp("bvs"+op, xv, yv)
			} else {
				r = bvCmp("bvu"+op, xv, yv)
			}
		default:
			fail("int binop %s", ins.Op)
		}
		fr.env[ins] = r
	case IfaceV:
		yv := y.(IfaceV)
		var eq *Term
		switch {
		case xv.t == nil || yv.t == nil:
			eq = boolConst(xv.t == nil && yv.t == nil)
		default:
			xo, ok1 := xv.v.(OpaqueV)
			yo, ok2 := yv.v.(OpaqueV)
			if ok1 && ok2 {
				eq = boolConst(xo == yo)
			} else if !types.Identical(xv.t, yv.t) {
				eq = tFalse
			} else {
				fail("interface comparison of %s", xv.t)
			}
		}
		if ins.Op == token.NEQ {
			eq = tNot(eq)
		}
		fr.env[ins] = eq
	case PtrV:
		yv := y.(PtrV)
		eq := boolConst(xv.obj == yv.obj && fmt.Sprint(xv.path) == fmt.Sprint(yv.path))
		if ins.Op == token.NEQ {
			eq = tNot(eq)
		}
		fr.env[ins] = eq
	case SliceV:
		yv := y.(SliceV)
		eq := boolConst(xv.obj == 0 && yv.obj == 0)
		if xv.obj != 0 && yv.obj != 0 {
			fail("slice comparison")
		}
		if ins.Op == token.NEQ {
			eq = tNot(eq)
		}
		fr.env[ins] = eq
	case StrV:
		yv := y.(StrV)
		switch ins.Op {
		case token.ADD:
			fr.env[ins] = StrV{segs: append(append([]Seg(nil), xv.segs...), yv.segs...)}
		default:
			fail("string binop %s", ins.Op)
		}
	default:
		fail("binop on %T", x)
	}
	return true
}

func (ex *Exec) convert(st *State, ins *ssa.Convert) Value {
	x := ex.eval(st, ins.X)
	dt, st0 := ins.Type(), ins.X.Type()
	if dw, _, ok := intInfo(dt); ok {
		if _, ss, ok2 := intInfo(st0); ok2 {
			return bvConv(x.(*Term), ss, dw)
		}
	}
	if isString(dt) {
		if sl, ok := x.(SliceV); ok {
			return StrV{segs: []Seg{{op: "bytes", args: []Value{sl}}}}
		}
	}
	fail("convert %s -> %s", st0, dt)
	return nil
}

func (ex *Exec) typeAssert(st *State, fr *Frame, ins *ssa.TypeAssert) bool {
	x := ex.eval(st, ins.X).(IfaceV)
	var ok bool
	if x.t != nil {
		if it, isI := ins.AssertedType.Underlying().(*types.Interface); isI {
			ok = types.Implements(x.t, it)
		} else {
			ok = types.Identical(x.t, ins.AssertedType)
		}
	}
	var val Value
	if ok {
		if _, isI := ins.AssertedType.Underlying().(*types.Interface); isI {
			val = x
		} else {
			val = x.v
		}
	} else {
		val = zeroValue(ins.AssertedType)
	}
	if ins.CommaOk {
		fr.env[ins] = TupleV{val, boolConst(ok)}
		return true
	}
	if !ok {
		ex.check(st, tTrue, "panic", "failed type assertion", ins)
		return false
	}
	fr.env[ins] = val
	return true
}

// container returns the array value a slice points into.
func (st *State) container(s SliceV) Value {
	return getPath(st.heap[s.obj].val, s.path)
}

func (ex *Exec) indexAddr(st *State, fr *Frame, ins *ssa.IndexAddr) bool {
	x := ex.eval(st, ins.X)
	i := ex.eval(st, ins.Index).(*Term)
	_, isigned, _ := intInfo(ins.Index.Type())
	i = bvConv(i, isigned, 64)
	switch xv := x.(type) {
	case SliceV:
		if !ex.check(st, bvCmp("bvuge", i, xv.len), "panic", "index out of range", ins) {
			return false
		}
		idx := bvBin("bvadd", xv.off, i)
		fr.env[ins] = PtrV{obj: xv.obj, path: extendPath(xv.path, PathElem{idx: idx})}
	case PtrV: // pointer to array
		if xv.obj == 0 {
			ex.check(st, tTrue, "panic", "nil pointer dereference", ins)
			return false
		}
		n := ins.X.Type().Underlying().(*types.Pointer).Elem().Underlying().(*types.Array).Len()
		if !ex.check(st, bvCmp("bvuge", i, u64(n)), "panic", "index out of range", ins) {
			return false
		}
		fr.env[ins] = PtrV{obj: xv.obj, path: extendPath(xv.path, PathElem{idx: i})}
	default:
		fail("IndexAddr on %T", x)
	}
	return true
}

func (ex *Exec) slice(st *State, fr *Frame, ins *ssa.Slice) bool {
	x := ex.eval(st, ins.X)
	conv := func(v ssa.Value, def *Term) *Term {
		if v == nil {
			return def
		}
		_, sg, _ := intInfo(v.Type())
		return bvConv(ex.eval(st, v).(*Term), sg, 64)
	}
	var base SliceV
	switch xv := x.(type) {
	case SliceV:
		base = xv
	case PtrV:
		n := ins.X.Type().Underlying().(*types.Pointer).Elem().Underlying().(*types.Array).Len()
		if xv.obj == 0 {
			ex.check(st, tTrue, "panic", "nil pointer dereference", ins)
			return false
		}
		base = SliceV{obj: xv.obj, path: xv.path, off: u64(0), len: u64(n), cap: u64(n)}
	default:
		fail("Slice of %T", x)
	}
	lo := conv(ins.Low, u64(0))
	hi := conv(ins.High, base.len)
	mx := conv(ins.Max, base.cap)
	bad := tOr(bvCmp("bvugt", mx, base.cap), tOr(bvCmp("bvugt", hi, mx), bvCmp("bvugt", lo, hi)))
	if !ex.check(st, bad, "panic", "slice bounds out of range", ins) {
		return false
	}
	fr.env[ins] = SliceV{obj: base.obj, path: base.path, off: bvBin("bvadd", base.off, lo), len: bvBin("bvsub", hi, lo), cap: bvBin("bvsub", mx, lo)}
	return true
}

func (ex *Exec) makeSlice(st *State, fr *Frame, ins *ssa.MakeSlice) bool {
	elem := ins.Type().Underlying().(*types.Slice).Elem()
	_, ls, _ := intInfo(ins.Len.Type())
	n := bvConv(ex.eval(st, ins.Len).(*Term), ls, 64)
	_, cs, _ := intInfo(ins.Cap.Type())
	c := bvConv(ex.eval(st, ins.Cap).(*Term), cs, 64)
	bad := tOr(bvCmp("bvugt", n, u64(1<<31)), bvCmp("bvugt", n, c))
	if !ex.check(st, bad, "panic", "makeslice: len out of range (> 2^31 or > cap)", ins) {
		return false
	}
	if w, _, ok := intInfo(elem); ok {
		id := st.alloc(types.NewArray(elem, 0), BytesV{a: &ArrExpr{kind: 1, w: w}, n: c, w: w})
		fr.env[ins] = SliceV{obj: id, off: u64(0), len: n, cap: c}
		return true
	}
	if !c.isConst {
		fail("make of composite slice with symbolic cap")
	}
	a := ArrV{e: make([]Value, c.v)}
	for i := range a.e {
		a.e[i] = zeroValue(elem)
	}
	id := st.alloc(types.NewArray(elem, int64(c.v)), a)
	fr.env[ins] = SliceV{obj: id, off: u64(0), len: n, cap: c}
	return true
}
