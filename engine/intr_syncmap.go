package main

import (
	"golang.org/x/tools/go/ssa"
)

// sync.Map as an association list kept in the first field of the Map object (its real fields
// are never touched): Load / Store / LoadOrStore / Delete with Go's == on the interface keys.
// Concurrency is not the subject where it is used (one goroutine at a time in the harnesses);
// in trace mode the accesses are atomic events.

type syncMapV struct{ entries []MapEntry }

func (ex *Exec) syncMapGet(st *State, p PtrV) *syncMapV {
	s := st.load(p).(StructV)
	if m, ok := s.f[0].(*syncMapV); ok {
		return m
	}
	return &syncMapV{}
}

func (ex *Exec) syncMapSet(st *State, p PtrV, m *syncMapV) {
	s := st.load(p).(StructV)
	nf := append([]Value(nil), s.f...)
	nf[0] = m
	st.store(p, StructV{f: nf})
}

func init() {
	recv := func(ex *Exec, st *State, args []Value, at ssa.Instruction) (PtrV, bool) {
		p := args[0].(PtrV)
		if p.obj == 0 {
			ex.check(st, tTrue, "panic", "nil pointer dereference", at)
			ex.endPath(st, "panic")
			return p, false
		}
		ex.emitAtomic(st, p)
		return p, true
	}
	// find forks over "key equals entry i" / "no entry has this key"
	find := func(ex *Exec, st *State, p PtrV, key Value, hit func(st *State, i int), miss func(st *State)) bool {
		m := ex.syncMapGet(st, p)
		var alts []alt
		none := tTrue
		for i, e := range m.entries {
			i := i
			eq := ex.keyEq(st, key, e.k)
			alts = append(alts, alt{cond: tAnd(none, eq), apply: func(st *State) { hit(st, i) }})
			none = tAnd(none, tNot(eq))
		}
		alts = append(alts, alt{cond: none, apply: miss})
		return ex.forkAlts(st, alts)
	}
	intrinsics["(*sync.Map).Load"] = func(ex *Exec, st *State, fv FuncV, args []Value, res ssa.Value, at ssa.Instruction) bool {
		p, ok := recv(ex, st, args, at)
		if !ok {
			return false
		}
		return find(ex, st, p, args[1],
			func(st *State, i int) { setRes(st, res, TupleV{ex.syncMapGet(st, p).entries[i].v, tTrue}) },
			func(st *State) { setRes(st, res, TupleV{IfaceV{}, tFalse}) })
	}
	intrinsics["(*sync.Map).Store"] = func(ex *Exec, st *State, fv FuncV, args []Value, res ssa.Value, at ssa.Instruction) bool {
		p, ok := recv(ex, st, args, at)
		if !ok {
			return false
		}
		ex.publish(st, args[1])
		ex.publish(st, args[2])
		return find(ex, st, p, args[1],
			func(st *State, i int) {
				m := ex.syncMapGet(st, p)
				ne := append([]MapEntry(nil), m.entries...)
				ne[i] = MapEntry{k: ne[i].k, v: args[2]}
				ex.syncMapSet(st, p, &syncMapV{entries: ne})
				setRes(st, res, TupleV{})
			},
			func(st *State) {
				m := ex.syncMapGet(st, p)
				ne := append(append([]MapEntry(nil), m.entries...), MapEntry{k: args[1], v: args[2]})
				ex.syncMapSet(st, p, &syncMapV{entries: ne})
				setRes(st, res, TupleV{})
			})
	}
	intrinsics["(*sync.Map).LoadOrStore"] = func(ex *Exec, st *State, fv FuncV, args []Value, res ssa.Value, at ssa.Instruction) bool {
		p, ok := recv(ex, st, args, at)
		if !ok {
			return false
		}
		ex.publish(st, args[1])
		ex.publish(st, args[2])
		return find(ex, st, p, args[1],
			func(st *State, i int) { setRes(st, res, TupleV{ex.syncMapGet(st, p).entries[i].v, tTrue}) },
			func(st *State) {
				m := ex.syncMapGet(st, p)
				ne := append(append([]MapEntry(nil), m.entries...), MapEntry{k: args[1], v: args[2]})
				ex.syncMapSet(st, p, &syncMapV{entries: ne})
				setRes(st, res, TupleV{args[2], tFalse})
			})
	}
	intrinsics["(*sync.Map).Delete"] = func(ex *Exec, st *State, fv FuncV, args []Value, res ssa.Value, at ssa.Instruction) bool {
		p, ok := recv(ex, st, args, at)
		if !ok {
			return false
		}
		return find(ex, st, p, args[1],
			func(st *State, i int) {
				m := ex.syncMapGet(st, p)
				ne := append(append([]MapEntry(nil), m.entries[:i]...), m.entries[i+1:]...)
				ex.syncMapSet(st, p, &syncMapV{entries: ne})
				setRes(st, res, TupleV{})
			},
			func(st *State) { setRes(st, res, TupleV{}) })
	}
}
