package main

import (
	"fmt"
	"go/types"

	"golang.org/x/tools/go/ssa"
)

type Value interface{}

type PathElem struct {
	field int
	idx   *Term // non-nil => array index
}

type PtrV struct {
	obj  int // 0 = nil
	path []PathElem
}

type SliceV struct {
	obj           int // 0 = nil slice
	path          []PathElem
	off, len, cap *Term
}

type StructV struct{ f []Value }
type ArrV struct{ e []Value }

// BytesV is the content of an array of scalars (element width w bits).
type BytesV struct {
	a *ArrExpr
	n *Term
	w int
}

type IfaceV struct {
	t types.Type // nil => nil interface
	v Value
}

type Seg struct {
	lit  string
	op   string // opaque application name
	args []Value
}
type StrV struct{ segs []Seg }

type TupleV []Value
type FuncV struct {
	fn   *ssa.Function
	free []Value
}
type OpaqueV struct {
	kind string
	id   string
}
type MapRef struct{ obj int }

// ---- functional arrays -------------------------------------------------

type ArrExpr struct {
	kind             int // 0 base symbol, 1 const-zero, 2 store, 3 copy
	name             string
	w                int
	base             *ArrExpr
	idx, val         *Term
	src              *ArrExpr
	dOff, sOff, cnt  *Term
}

func arrSort(w int) string { return fmt.Sprintf("(Array (_ BitVec 64) (_ BitVec %d))", w) }

func (a *ArrExpr) sel(i *Term) *Term {
	switch a.kind {
	case 0:
		return &Term{s: "(select " + a.name + " " + i.s + ")", w: a.w}
	case 1:
		return bvConst(0, a.w)
	case 2:
		c := tEq(i, a.idx)
		if c.isConst {
			if c.v == 1 {
				return a.val
			}
			return a.base.sel(i)
		}
		return tIte(c, a.val, a.base.sel(i))
	case 3:
		in := tAnd(bvCmp("bvuge", i, a.dOff), bvCmp("bvult", i, bvBin("bvadd", a.dOff, a.cnt)))
		if in.isConst {
			if in.v == 1 {
				return a.src.sel(bvBin("bvadd", bvBin("bvsub", i, a.dOff), a.sOff))
			}
			return a.base.sel(i)
		}
		return tIte(in, a.src.sel(bvBin("bvadd", bvBin("bvsub", i, a.dOff), a.sOff)), a.base.sel(i))
	}
	panic("bad arr")
}

func (a *ArrExpr) store(i, v *Term) *ArrExpr {
	return &ArrExpr{kind: 2, w: a.w, base: a, idx: i, val: v}
}

// ---- types helpers -------------------------------------------------------

func intInfo(t types.Type) (w int, signed bool, ok bool) {
	b, isb := t.Underlying().(*types.Basic)
	if !isb {
		return 0, false, false
	}
	switch b.Kind() {
	case types.Int8:
		return 8, true, true
	case types.Int16:
		return 16, true, true
	case types.Int32:
		return 32, true, true
	case types.Int64, types.Int, types.UntypedInt, types.UntypedRune:
		return 64, true, true
	case types.Uint8:
		return 8, false, true
	case types.Uint16:
		return 16, false, true
	case types.Uint32:
		return 32, false, true
	case types.Uint64, types.Uint, types.Uintptr:
		return 64, false, true
	}
	return 0, false, false
}

func isBool(t types.Type) bool {
	b, ok := t.Underlying().(*types.Basic)
	return ok && b.Info()&types.IsBoolean != 0
}
func isString(t types.Type) bool {
	b, ok := t.Underlying().(*types.Basic)
	return ok && b.Info()&types.IsString != 0
}

func u64(v int64) *Term { return bvConst(uint64(v), 64) }
