package main

import (
	"fmt"
	"go/types"
	"strings"

	"golang.org/x/tools/go/ssa"
)

type Value interface{}

type PathElem struct {
	field int
	idx   *Term // non-nil => array index
}

type PtrV struct {
	obj  int // 0 = nil
	path []PathElem
}

type SliceV struct {
	obj           int // 0 = nil slice
	path          []PathElem
	off, len, cap *Term
}

type StructV struct{ f []Value }
type ArrV struct{ e []Value }

// BytesV is the content of an array of scalars (element width w bits).
type BytesV struct {
	a *ArrExpr
	n *Term
	w int
}

type IfaceV struct {
	t types.Type // nil => nil interface
	v Value
}

// FloatV is a float carried as the bit pattern it was made from (w = 32 or 64 is
// the width of that pattern; a float32 converted to float64 keeps w = 32).
type FloatV struct {
	bits *Term
	w    int
}

// Seg is a piece of a string rope: a literal, or an opaque application.
type Seg struct {
	lit  string
	op   string // "" literal; "bytes" (args: SliceSnap); otherwise opaque application name
	args []Value
}
type StrV struct{ segs []Seg }

// SliceSnap is a snapshot of byte-slice content (array expression at snapshot time).
type SliceSnap struct {
	a        *ArrExpr
	off, len *Term
}

type TupleV []Value
type FuncV struct {
	fn    *ssa.Function
	free  []Value
	bound []Value // bound receiver (method value)
}
type OpaqueV struct {
	kind string
	id   string
}
type MapRef struct{ obj int }
type ChanRef struct{ obj int }

// RopeRef is the result of (*bytes.Buffer).Bytes(): it aliases the buffer object,
// reading it yields the buffer's current rope.
type RopeRef struct {
	buf  PtrV
	n    int    // unused (kept for compatibility)
	snap StrV   // the buffer's content when Bytes() was called: the slice's own length and content
	gen  uint64 // the buffer's reset generation at that time
}

// ---- maps ------------------------------------------------------------------

type MapEntry struct {
	k, v Value
}
type MapV struct {
	kt, vt  types.Type
	entries []MapEntry // pairwise distinct keys on the current path
}

// ---- channels --------------------------------------------------------------

type ChanV struct {
	q      []Value
	cap    int
	closed bool
	sent   int // total number of values ever enqueued
}

// ---- functional arrays -------------------------------------------------

type ArrExpr struct {
	kind            int // 0 base symbol, 1 const-zero, 2 store, 3 copy, 4 hex text of a range of src
	name            string
	w               int
	base            *ArrExpr
	idx, val        *Term
	src             *ArrExpr
	dOff, sOff, cnt *Term
	depth           int
}

func arrSort(w int) string { return fmt.Sprintf("(Array (_ BitVec 64) (_ BitVec %d))", w) }

func (a *ArrExpr) sel(i *Term) *Term {
	switch a.kind {
	case 0:
		return rawTerm("(select "+a.name+" "+i.s+")", a.w)
	case 1:
		return bvConst(0, a.w)
	case 2:
		c := tEq(i, a.idx)
		if c.isConst {
			if c.v == 1 {
				return a.val
			}
			return a.base.sel(i)
		}
		// distinct offsets from the same base: (x + c1) vs (x + c2)
		if d, ok := linDiffer(i, a.idx); ok && d {
			return a.base.sel(i)
		}
		return tIte(c, a.val, a.base.sel(i))
	case 3:
		in := inRange(i, a.dOff, a.cnt)
		if in.isConst {
			if in.v == 1 {
				return a.src.sel(bvBin("bvadd", bvBin("bvsub", i, a.dOff), a.sOff))
			}
			return a.base.sel(i)
		}
		return tIte(in, a.src.sel(bvBin("bvadd", bvBin("bvsub", i, a.dOff), a.sOff)), a.base.sel(i))
	case 4:
		// octets dOff .. dOff+2*cnt-1 are the lower-case hex text of src[sOff .. sOff+cnt-1]
		rel := bvBin("bvsub", i, a.dOff)
		in := inRange(i, a.dOff, bvBin("bvshl", a.cnt, u64(1)))
		b := a.src.sel(bvBin("bvadd", a.sOff, bvBin("bvlshr", rel, u64(1))))
		hi := tEq(bvBin("bvand", rel, u64(1)), u64(0))
		nib := tIte(hi, bvBin("bvlshr", b, bvConst(4, 8)), bvBin("bvand", b, bvConst(15, 8)))
		return tIte(in, hexDigit(nib), a.base.sel(i))
	}
	panic("bad arr")
}

func (a *ArrExpr) hexFrom(dOff *Term, src *ArrExpr, sOff, cnt *Term) *ArrExpr {
	if cnt.isConst && cnt.v == 0 {
		return a
	}
	return &ArrExpr{kind: 4, w: a.w, base: a, src: src, dOff: dOff, sOff: sOff, cnt: cnt, depth: a.depth + 1}
}

// inRange builds  off <= i < off+cnt  (unsigned, no wrap assumed for buffer offsets).
func inRange(i, off, cnt *Term) *Term {
	if cnt.isConst && cnt.v == 0 {
		return tFalse
	}
	// same linear base => decide on constants when possible
	ib, ic := linParts(i)
	ob, oc := linParts(off)
	if ib == ob && cnt.isConst {
		d := int64(ic - oc)
		return boolConst(d >= 0 && uint64(d) < cnt.v)
	}
	if ib == ob && int64(ic-oc) < 0 {
		return tFalse
	}
	lo := bvCmp("bvuge", i, off)
	if ib == ob {
		lo = tTrue
	}
	return tAnd(lo, bvCmp("bvult", bvBin("bvsub", i, off), cnt))
}

func linParts(t *Term) (string, uint64) {
	if t.isConst {
		return "", t.v
	}
	if t.lin != nil {
		return t.lin.s, t.linC
	}
	return t.s, 0
}

// linDiffer reports whether two terms are provably different because they are the
// same base plus different constants.
func linDiffer(a, b *Term) (bool, bool) {
	ab, ac := linParts(a)
	bb, bc := linParts(b)
	if ab == bb {
		return ac != bc, true
	}
	return false, false
}

func (a *ArrExpr) store(i, v *Term) *ArrExpr {
	return &ArrExpr{kind: 2, w: a.w, base: a, idx: i, val: v, depth: a.depth + 1}
}

func (a *ArrExpr) copyFrom(dOff *Term, src *ArrExpr, sOff, cnt *Term) *ArrExpr {
	if cnt.isConst && cnt.v == 0 {
		return a
	}
	return &ArrExpr{kind: 3, w: a.w, base: a, src: src, dOff: dOff, sOff: sOff, cnt: cnt, depth: a.depth + 1}
}

// ---- types helpers -------------------------------------------------------

func intInfo(t types.Type) (w int, signed bool, ok bool) {
	b, isb := t.Underlying().(*types.Basic)
	if !isb {
		return 0, false, false
	}
	switch b.Kind() {
	case types.Int8:
		return 8, true, true
	case types.Int16:
		return 16, true, true
	case types.Int32:
		return 32, true, true
	case types.Int64, types.Int, types.UntypedInt, types.UntypedRune:
		return 64, true, true
	case types.Uint8:
		return 8, false, true
	case types.Uint16:
		return 16, false, true
	case types.Uint32:
		return 32, false, true
	case types.Uint64, types.Uint, types.Uintptr:
		return 64, false, true
	}
	return 0, false, false
}

func floatWidth(t types.Type) int {
	b, isb := t.Underlying().(*types.Basic)
	if !isb {
		return 0
	}
	switch b.Kind() {
	case types.Float32:
		return 32
	case types.Float64, types.UntypedFloat:
		return 64
	}
	return 0
}

func isBool(t types.Type) bool {
	b, ok := t.Underlying().(*types.Basic)
	return ok && b.Info()&types.IsBoolean != 0
}
func isString(t types.Type) bool {
	b, ok := t.Underlying().(*types.Basic)
	return ok && b.Info()&types.IsString != 0
}

func litStr(s string) StrV {
	if s == "" {
		return StrV{}
	}
	return StrV{segs: []Seg{{lit: s}}}
}

// concrete returns the string if the rope consists of literals only.
func (s StrV) concrete() (string, bool) {
	var sb strings.Builder
	for _, g := range s.segs {
		if g.op != "" {
			return "", false
		}
		sb.WriteString(g.lit)
	}
	return sb.String(), true
}

func (s StrV) concat(t StrV) StrV {
	if len(s.segs) == 0 {
		return t
	}
	if len(t.segs) == 0 {
		return s
	}
	out := make([]Seg, 0, len(s.segs)+len(t.segs))
	out = append(out, s.segs...)
	for _, g := range t.segs {
		if n := len(out); n > 0 && g.op == "" && out[n-1].op == "" {
			out[n-1] = Seg{lit: out[n-1].lit + g.lit}
		} else {
			out = append(out, g)
		}
	}
	return StrV{segs: out}
}

// describe renders a value for reports (never fed to the solver).
func describe(v Value) string {
	switch x := v.(type) {
	case nil:
		return "<nil>"
	case *Term:
		return x.s
	case StrV:
		var sb strings.Builder
		for _, g := range x.segs {
			if g.op == "" {
				sb.WriteString(g.lit)
			} else {
				sb.WriteString("‹" + g.op)
				for _, a := range g.args {
					sb.WriteString(" " + describe(a))
				}
				sb.WriteString("›")
			}
		}
		return sb.String()
	case SliceSnap:
		return fmt.Sprintf("bytes[%s+%s]", x.off.s, x.len.s)
	case SliceV:
		return fmt.Sprintf("slice(obj%d off=%s len=%s)", x.obj, x.off.s, x.len.s)
	case PtrV:
		return fmt.Sprintf("ptr(obj%d)", x.obj)
	case FloatV:
		return fmt.Sprintf("float%d(%s)", x.w, x.bits.s)
	case IfaceV:
		if x.t == nil {
			return "nil-iface"
		}
		return fmt.Sprintf("iface(%s,%s)", x.t, describe(x.v))
	case OpaqueV:
		return x.kind + ":" + x.id
	case StructV:
		var parts []string
		for _, f := range x.f {
			parts = append(parts, describe(f))
		}
		return "{" + strings.Join(parts, ",") + "}"
	}
	return fmt.Sprintf("%T", v)
}
