package main

import (
	"bufio"
	"fmt"
	"io"
	"os/exec"
	"strings"
	"time"
)

type Solver struct {
	cmd     *exec.Cmd
	in      io.WriteCloser
	out     *bufio.Reader
	nDef    int
	Queries int
	Sat     int
	Unsat   int
	Unknown int
	Time    time.Duration
	log     io.Writer
	facts   *Facts
	Prof    map[string]int
}

func NewSolver(bin string, seed int, log io.Writer) (*Solver, error) {
	args := []string{"-in"}
	if strings.Contains(bin, "cvc5") {
		args = []string{"--incremental", "--produce-models", "--lang=smt2"}
	}
	cmd := exec.Command(bin, args...)
	in, err := cmd.StdinPipe()
	if err != nil {
		return nil, err
	}
	outp, err := cmd.StdoutPipe()
	if err != nil {
		return nil, err
	}
	cmd.Stderr = cmd.Stdout
	if err := cmd.Start(); err != nil {
		return nil, err
	}
	s := &Solver{cmd: cmd, in: in, out: bufio.NewReaderSize(outp, 1<<20), log: log, facts: NewFacts()}
	s.send("(set-option :produce-models true)")
	if !strings.Contains(bin, "cvc5") {
		s.send(fmt.Sprintf("(set-option :random-seed %d)", seed))
	}
	return s, nil
}

func (s *Solver) send(line string) {
	if s.log != nil {
		fmt.Fprintln(s.log, line)
	}
	io.WriteString(s.in, line)
	io.WriteString(s.in, "\n")
}

func (s *Solver) Push() { s.send("(push 1)"); s.facts.Push() }
func (s *Solver) Pop()  { s.send("(pop 1)"); s.facts.Pop() }

func (s *Solver) Declare(name, sort string) { s.send(fmt.Sprintf("(declare-const %s %s)", name, sort)) }

func (s *Solver) Assert(t *Term) {
	if t.isConst && t.v == 1 {
		return
	}
	s.facts.Learn(t, true)
	s.send("(assert " + t.s + ")")
}

// Name gives a long term a short name in the current scope.
func (s *Solver) Name(t *Term) *Term {
	if t.isConst || len(t.s) < 160 {
		return t
	}
	s.nDef++
	n := fmt.Sprintf("d!%d", s.nDef)
	s.send(fmt.Sprintf("(define-fun %s () %s %s)", n, sortOf(t.w), t.s))
	return &Term{s: n, w: t.w, op: t.op, args: t.args, lin: t.lin, linC: t.linC}
}

func (s *Solver) readLine() string {
	l, err := s.out.ReadString('\n')
	if err != nil {
		panic("solver died: " + err.Error())
	}
	return strings.TrimSpace(l)
}

// Check returns "sat", "unsat" or "unknown" for the current assertions plus extra.
func (s *Solver) Check(extra ...*Term) string {
	if len(extra) == 1 {
		if v, ok := s.facts.Decide(extra[0]); ok {
			if v {
				return "sat"
			}
			return "unsat"
		}
	}
	t0 := time.Now()
	s.Queries++
	if len(extra) == 1 && s.Prof != nil {
		k := extra[0].s
		if len(k) > 70 {
			k = k[:70]
		}
		s.Prof[k]++
	}
	if len(extra) > 0 {
		s.Push()
		for _, e := range extra {
			s.Assert(e)
		}
	}
	s.send("(check-sat)")
	res := s.readLine()
	for res == "" {
		res = s.readLine()
	}
	if strings.Contains(res, "(error") || (res != "sat" && res != "unsat") {
		if s.log != nil {
			fmt.Fprintln(s.log, "; SOLVER SAID: "+res)
		}
		res = "unknown"
	}
	if len(extra) > 0 {
		s.Pop()
	}
	switch res {
	case "sat":
		s.Sat++
	case "unsat":
		s.Unsat++
	default:
		s.Unknown++
	}
	s.Time += time.Since(t0)
	return res
}

// GetValues returns the values of the given terms in the current model.
func (s *Solver) GetValues(ts []string) map[string]string {
	res := map[string]string{}
	for _, t := range ts {
		s.send("(get-value (" + t + "))")
		l := s.readLine()
		// ((t #x..))
		l = strings.TrimSpace(l)
		if strings.HasPrefix(l, "((") && strings.HasSuffix(l, "))") {
			body := l[2 : len(l)-2]
			if strings.HasPrefix(body, t+" ") {
				res[t] = strings.TrimSpace(body[len(t)+1:])
				continue
			}
		}
		res[t] = l
	}
	return res
}

func (s *Solver) Close() {
	s.send("(exit)")
	s.in.Close()
	s.cmd.Wait()
}
