package main

import (
	"bufio"
	"fmt"
	"io"
	"os"
	"os/exec"
	"strconv"
	"strings"
	"time"
)

type Solver struct {
	bin     string
	cmd     *exec.Cmd
	in      *bufio.Writer
	inRaw   io.WriteCloser
	out     *bufio.Reader
	nDef    int
	nSym    int
	Queries int
	Sat     int
	Unsat   int
	Unknown int
	Errors  int
	Time    time.Duration
	MaxQ    time.Duration
	log     io.Writer
	facts   *Facts
	depth   int
	// scoped caches (e.g. map tables defined with define-fun): key -> depth defined at
	scoped map[interface{}]scopedEnt
	// all assertions currently on the stack (for cross-checking with another solver)
	PreHits   int
	timeoutMs int
	Hung      bool
	retrying  bool
	Retries   int
	LastErr   string
	// everything currently on the assertion stack, one list of lines per scope level, so
	// that a solver process whose memory has grown can be replaced by a fresh one
	stack     [][]string
	seed      int
	sinceRst  int
	Restarts  int
	rssLimit  int64 // kB
	dead      bool  // the process was killed by the watchdog; a fresh one is started at the next query
}

type nameKey struct {
	s string
	w int
}

type scopedEnt struct {
	depth int
	val   interface{}
}

func NewSolver(bin string, seed int, timeoutMs int, log io.Writer) (*Solver, error) {
	s := &Solver{timeoutMs: timeoutMs, bin: bin, seed: seed, log: log, facts: NewFacts(), scoped: map[interface{}]scopedEnt{}, stack: [][]string{nil}, rssLimit: 1500 * 1024}
	if v := os.Getenv("VERIF_SOLVER_RSS_MB"); v != "" {
		if n, err := strconv.Atoi(v); err == nil && n > 0 {
			s.rssLimit = int64(n) * 1024
		}
	}
	if err := s.start(); err != nil {
		return nil, err
	}
	return s, nil
}

// start launches the solver process and sets its options.
func (s *Solver) start() error {
	bin, seed, timeoutMs := s.bin, s.seed, s.timeoutMs
	args := []string{"-in"}
	isCvc := strings.Contains(bin, "cvc5")
	if isCvc {
		args = []string{"--incremental", "--produce-models", "--lang=smt2", fmt.Sprintf("--tlimit-per=%d", timeoutMs)}
	}
	cmd := exec.Command(bin, args...)
	in, err := cmd.StdinPipe()
	if err != nil {
		return err
	}
	outp, err := cmd.StdoutPipe()
	if err != nil {
		return err
	}
	cmd.Stderr = cmd.Stdout
	if err := cmd.Start(); err != nil {
		return err
	}
	s.cmd, s.inRaw, s.in, s.out = cmd, in, bufio.NewWriterSize(in, 1<<16), bufio.NewReaderSize(outp, 1<<20)
	s.raw("(set-option :produce-models true)")
	if !isCvc {
		s.raw(fmt.Sprintf("(set-option :random-seed %d)", seed))
		s.raw(fmt.Sprintf("(set-option :timeout %d)", timeoutMs))
	}
	return nil
}

func (s *Solver) raw(line string) {
	if s.dead {
		return // the assertion stack is kept in s.stack; it is replayed into a fresh process
	}
	if s.log != nil {
		fmt.Fprintln(s.log, line)
	}
	s.in.WriteString(line)
	s.in.WriteString("\n")
}

// send passes a command to the solver and keeps the assertion stack's text.
func (s *Solver) send(line string) {
	switch {
	case line == "(push 1)":
		s.stack = append(s.stack, nil)
	case line == "(pop 1)":
		s.stack = s.stack[:len(s.stack)-1]
	case strings.HasPrefix(line, "(declare-"), strings.HasPrefix(line, "(define-"), strings.HasPrefix(line, "(assert "):
		n := len(s.stack) - 1
		s.stack[n] = append(s.stack[n], line)
	}
	s.raw(line)
}

// rssKB is the resident size of the solver process.
func (s *Solver) rssKB() int64 {
	b, err := os.ReadFile(fmt.Sprintf("/proc/%d/statm", s.cmd.Process.Pid))
	if err != nil {
		return 0
	}
	f := strings.Fields(string(b))
	if len(f) < 2 {
		return 0
	}
	n, _ := strconv.ParseInt(f[1], 10, 64)
	return n * int64(os.Getpagesize()) / 1024
}

// maybeRestart replaces a solver process that has grown beyond the limit (z3 4.8.12
// does not give memory back over long push/pop sessions) by a fresh one holding the
// same assertion stack. Called between queries only.
func (s *Solver) maybeRestart() {
	s.sinceRst++
	if !s.dead {
		if s.sinceRst%100 != 0 || strings.Contains(s.bin, "cvc5") {
			return
		}
		if s.rssKB() < s.rssLimit {
			return
		}
		s.raw("(exit)")
		s.in.Flush()
		s.inRaw.Close()
		s.cmd.Process.Kill()
		s.cmd.Wait()
	}
	s.dead = false
	if err := s.start(); err != nil {
		panic(execErr{"solver restart failed: " + err.Error()})
	}
	for i, lvl := range s.stack {
		if i > 0 {
			s.raw("(push 1)")
		}
		for _, l := range lvl {
			s.raw(l)
		}
	}
	s.Restarts++
	s.sinceRst = 0
}

func (s *Solver) Push() { s.send("(push 1)"); s.facts.Push(); s.depth++ }
func (s *Solver) Pop() {
	s.send("(pop 1)")
	s.facts.Pop()
	s.depth--
	for k, e := range s.scoped {
		if e.depth > s.depth {
			delete(s.scoped, k)
		}
	}
}

func (s *Solver) ScopedGet(k interface{}) (interface{}, bool) {
	e, ok := s.scoped[k]
	return e.val, ok
}
func (s *Solver) ScopedPut(k, v interface{}) { s.scoped[k] = scopedEnt{s.depth, v} }

func (s *Solver) Declare(name, sort string) { s.send(fmt.Sprintf("(declare-const %s %s)", name, sort)) }

// Fresh declares a fresh constant.
func (s *Solver) Fresh(prefix string, w int) *Term {
	s.nSym++
	n := fmt.Sprintf("%s!%d", prefix, s.nSym)
	s.Declare(n, sortOf(w))
	return &Term{s: n, w: w}
}

func (s *Solver) FreshName(prefix string) string {
	s.nSym++
	return fmt.Sprintf("%s!%d", prefix, s.nSym)
}

func (s *Solver) Assert(t *Term) {
	if t.isConst && t.v == 1 {
		return
	}
	s.facts.Learn(t, true)
	s.send("(assert " + t.s + ")")
}

// Name gives a long term a short name in the current scope.
func (s *Solver) Name(t *Term) *Term {
	if t.isConst || len(t.s) <= nameThreshold {
		return t
	}
	// the same expression gets the same name while its definition is in scope, so that
	// recomputed values (e.g. a hash computed twice) stay syntactically equal
	key := nameKey{t.s, t.w}
	if v, ok := s.scoped[key]; ok {
		n := v.val.(string)
		return &Term{s: n, w: t.w, op: t.op, args: t.args, lin: t.lin, linC: t.linC}
	}
	s.nDef++
	n := fmt.Sprintf("d!%d", s.nDef)
	s.send(fmt.Sprintf("(define-fun %s () %s %s)", n, sortOf(t.w), t.s))
	s.scoped[key] = scopedEnt{s.depth, n}
	return &Term{s: n, w: t.w, op: t.op, args: t.args, lin: t.lin, linC: t.linC}
}

func (s *Solver) readLine() string {
	type res struct {
		l   string
		err error
	}
	ch := make(chan res, 1)
	go func() {
		l, err := s.out.ReadString('\n')
		ch <- res{l, err}
	}()
	limit := time.Duration(2*s.timeoutMs+10000) * time.Millisecond
	select {
	case r := <-ch:
		if r.err != nil {
			panic(execErr{"solver died: " + r.err.Error()})
		}
		return strings.TrimSpace(r.l)
	case <-time.After(limit):
		// the solver ignores its own time limit on this query: this path is inconclusive; the
		// process is replaced (assertion stack replayed) when the next query is asked
		s.cmd.Process.Kill()
		s.inRaw.Close()
		s.cmd.Wait()
		s.dead = true
		s.Hung = true
		s.Unknown++
		panic(execErr{fmt.Sprintf("solver did not answer within %s (its own limit is %d ms): path abandoned", limit, s.timeoutMs)})
	}
}

// Check returns "sat", "unsat" or "unknown" for the current assertions plus extra.
func (s *Solver) Check(extra ...*Term) string {
	if len(extra) == 1 {
		if extra[0].isConst {
			if extra[0].v == 0 {
				return "unsat"
			}
		} else if v, ok := s.facts.Decide(extra[0]); ok {
			s.PreHits++
			if v {
				return "sat"
			}
			return "unsat"
		}
	}
	s.maybeRestart()
	t0 := time.Now()
	s.Queries++
	if len(extra) > 0 {
		// if the solver is abandoned in the middle of this query, the scope opened for the
		// extra assertions must not stay on the recorded stack
		depth := len(s.stack)
		defer func() {
			if r := recover(); r != nil {
				if s.dead && len(s.stack) > depth {
					s.stack = s.stack[:depth]
				}
				panic(r)
			}
		}()
	}
	if len(extra) > 0 {
		s.send("(push 1)")
		for _, e := range extra {
			if !(e.isConst && e.v == 1) {
				s.send("(assert " + e.s + ")")
			}
		}
	}
	s.send("(check-sat)")
	s.send("(echo \"@@done\")")
	s.in.Flush()
	res := "unknown"
	sawErr := false
	for {
		l := s.readLine()
		if strings.Contains(l, "@@done") {
			break
		}
		if strings.Contains(l, "(error") {
			sawErr = true
			if s.log != nil {
				fmt.Fprintln(s.log, "; SOLVER SAID: "+l)
			}
			if len(s.LastErr) < 400 {
				s.LastErr = l
			}
			continue
		}
		if l == "sat" || l == "unsat" || l == "unknown" {
			res = l
		}
	}
	if sawErr {
		s.Errors++
		res = "unknown"
	} else if res == "unknown" && !strings.Contains(s.bin, "cvc5") && !s.retrying {
		// a time-out (e.g. on a loaded machine): ask once more with three times the limit
		s.retrying = true
		s.Retries++
		s.send(fmt.Sprintf("(set-option :timeout %d)", 3*s.timeoutMs))
		save := s.timeoutMs
		s.timeoutMs = 3 * save
		s.send("(check-sat)")
		s.send("(echo \"@@done\")")
		s.in.Flush()
		for {
			l := s.readLine()
			if strings.Contains(l, "@@done") {
				break
			}
			if l == "sat" || l == "unsat" || l == "unknown" {
				res = l
			}
		}
		s.timeoutMs = save
		s.send(fmt.Sprintf("(set-option :timeout %d)", save))
		s.retrying = false
	}
	if len(extra) > 0 {
		s.send("(pop 1)")
	}
	switch res {
	case "sat":
		s.Sat++
	case "unsat":
		s.Unsat++
	default:
		s.Unknown++
	}
	d := time.Since(t0)
	s.Time += d
	if d > s.MaxQ {
		s.MaxQ = d
	}
	return res
}

// CheckKeep is like Check(extra) but, when the answer is sat, leaves the extra
// assertions in place inside a new scope so that values can be read; the caller
// must call Pop afterwards (in every case).
func (s *Solver) CheckKeep(extra ...*Term) string {
	s.Push()
	for _, e := range extra {
		s.Assert(e)
	}
	return s.Check()
}

// GetValues returns the values of the given terms in the current model (after a sat answer).
func (s *Solver) GetValues(ts []string) []string {
	res := make([]string, len(ts))
	const batch = 256
	for lo := 0; lo < len(ts); lo += batch {
		hi := lo + batch
		if hi > len(ts) {
			hi = len(ts)
		}
		s.send("(get-value (" + strings.Join(ts[lo:hi], " ") + "))")
		s.in.Flush()
		// response: ((t v) (t v) ...) possibly over several lines; read until parens balance
		var sb strings.Builder
		depth, started := 0, false
		for {
			l := s.readLine()
			sb.WriteString(l)
			sb.WriteByte(' ')
			for _, c := range l {
				if c == '(' {
					depth++
					started = true
				} else if c == ')' {
					depth--
				}
			}
			if started && depth <= 0 {
				break
			}
			if !started && l != "" {
				break
			}
		}
		vals := parseValueList(sb.String())
		for i := lo; i < hi; i++ {
			if i-lo < len(vals) {
				res[i] = vals[i-lo]
			}
		}
	}
	return res
}

// parseValueList parses "((t1 v1) (t2 v2))" and returns the v's as text.
func parseValueList(s string) []string {
	s = strings.TrimSpace(s)
	if !strings.HasPrefix(s, "(") {
		return nil
	}
	// split top-level pairs
	var out []string
	depth := 0
	start := -1
	for i, c := range s {
		switch c {
		case '(':
			depth++
			if depth == 2 {
				start = i
			}
		case ')':
			if depth == 2 && start >= 0 {
				pair := s[start+1 : i]
				out = append(out, lastSexp(pair))
				start = -1
			}
			depth--
		}
	}
	return out
}

// lastSexp returns the last s-expression (atom or list) of a string.
func lastSexp(p string) string {
	p = strings.TrimSpace(p)
	if strings.HasSuffix(p, ")") {
		depth := 0
		for i := len(p) - 1; i >= 0; i-- {
			if p[i] == ')' {
				depth++
			} else if p[i] == '(' {
				depth--
				if depth == 0 {
					return p[i:]
				}
			}
		}
		return p
	}
	i := strings.LastIndexAny(p, " \t")
	return p[i+1:]
}

// parseBV parses a bit-vector or Bool literal into a number.
func parseBV(v string) (uint64, bool) {
	v = strings.TrimSpace(v)
	switch {
	case v == "true":
		return 1, true
	case v == "false":
		return 0, true
	case strings.HasPrefix(v, "#x"):
		var n uint64
		_, err := fmt.Sscanf(v[2:], "%x", &n)
		return n, err == nil
	case strings.HasPrefix(v, "#b"):
		var n uint64
		for _, c := range v[2:] {
			n = n<<1 | uint64(c-'0')
		}
		return n, true
	case strings.HasPrefix(v, "(_ bv"):
		var n uint64
		var w int
		_, err := fmt.Sscanf(v, "(_ bv%d %d)", &n, &w)
		return n, err == nil
	}
	return 0, false
}

func (s *Solver) Close() {
	if s.dead {
		return
	}
	s.send("(exit)")
	s.in.Flush()
	s.inRaw.Close()
	s.cmd.Wait()
}
