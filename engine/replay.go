package main

import (
	"bytes"
	"encoding/json"

	"fmt"
	"go/ast"
	"go/types"
	"golang.org/x/tools/go/ssa"
	"os"
	"os/exec"
	"path/filepath"
	"sort"
	"strings"
	"time"
)

// ReplayFile is a counterexample in replayable form.
type ReplayFile struct {
	Property   string           `json:"property"`
	Pkg        string           `json:"pkg"`
	HarnessDir string           `json:"harness_dir"`
	Entry      string           `json:"entry"`
	Split      int              `json:"split"`
	Params     map[string]int64 `json:"params"`
	Known      []string         `json:"known"`
	Model      []NondetVal      `json:"model"`
	Expect     Violation        `json:"expect"`
	Outcome    string           `json:"native_outcome,omitempty"`
	Reproduced bool             `json:"reproduced"`
}

const rtNative = `//go:build verif

package %s

import (
	"bytes"
	"encoding/hex"
	"encoding/json"
	"math"
	"os"
	"reflect"
	"strconv"
	"strings"
)

type verifRTNV struct {
	Fn    string ` + "`json:\"fn\"`" + `
	Kind  string ` + "`json:\"kind\"`" + `
	W     int    ` + "`json:\"w\"`" + `
	Val   uint64 ` + "`json:\"val\"`" + `
	Len   uint64 ` + "`json:\"len\"`" + `
	Bytes string ` + "`json:\"bytes\"`" + `
}
type verifRTFileT struct {
	Entry  string           ` + "`json:\"entry\"`" + `
	Params map[string]int64 ` + "`json:\"params\"`" + `
	Known  []string         ` + "`json:\"known\"`" + `
	Model  []verifRTNV        ` + "`json:\"model\"`" + `
}
type verifRTAssertFail struct{ msg string }
type verifRTAssumeFail struct{}

var verifRTFile verifRTFileT
var verifRTPos int
var verifRTAllocLimit int = -1

func verifRTLoad() {
	b, err := os.ReadFile(os.Getenv("VERIF_REPLAY"))
	if err != nil {
		panic(err)
	}
	if err := json.Unmarshal(b, &verifRTFile); err != nil {
		panic(err)
	}
}
func verifRTNext(fn string) verifRTNV {
	if verifRTPos >= len(verifRTFile.Model) {
		return verifRTNV{}
	}
	nv := verifRTFile.Model[verifRTPos]
	if nv.Fn != fn {
		panic("verif: replay desynchronised: harness asked for " + fn + ", recorded " + nv.Fn)
	}
	verifRTPos++
	return nv
}
func verifNondetInt() int       { return int(verifRTNext("verifNondetInt").Val) }
func verifNondetI64() int64     { return int64(verifRTNext("verifNondetI64").Val) }
func verifNondetU8() uint8      { return uint8(verifRTNext("verifNondetU8").Val) }
func verifNondetU16() uint16    { return uint16(verifRTNext("verifNondetU16").Val) }
func verifNondetU32() uint32    { return uint32(verifRTNext("verifNondetU32").Val) }
func verifNondetU64() uint64    { return verifRTNext("verifNondetU64").Val }
func verifNondetBool() bool     { return verifRTNext("verifNondetBool").Val != 0 }
func verifNondetBytes(n int) []byte {
	nv := verifRTNext("verifNondetBytes")
	b := make([]byte, n)
	h, _ := hex.DecodeString(nv.Bytes)
	copy(b, h)
	return b
}
func verifNondetBytesCap(n, c int) []byte {
	nv := verifRTNext("verifNondetBytesCap")
	b := make([]byte, c)
	h, _ := hex.DecodeString(nv.Bytes)
	copy(b, h)
	return b[:n]
}
func verifAssume(b bool) {
	if !b {
		panic(verifRTAssumeFail{})
	}
}
func verifAssert(b bool, msg string) {
	if !b {
		panic(verifRTAssertFail{msg})
	}
}
func verifReach(s string) {}
func verifNote(s string)  {}
func verifAt(b []byte, i int) byte {
	if i < 0 || i >= len(b) {
		return 0
	}
	return b[i]
}
func verifAll(c ...bool) bool {
	for _, x := range c {
		if !x {
			return false
		}
	}
	return true
}
func verifAny(c ...bool) bool {
	for _, x := range c {
		if x {
			return true
		}
	}
	return false
}
func verifKnown(id string) bool {
	for _, k := range verifRTFile.Known {
		if k == id {
			return true
		}
	}
	return false
}
func verifParam(name string, def int) int {
	if v, ok := verifRTFile.Params[name]; ok {
		return int(v)
	}
	return def
}
func verifSplit(n int) int { return int(verifRTNext("verifSplit").Val) }
func verifCase(n int) int  { return int(verifRTNext("verifCase").Val) }
func verifBytesEq(a, b []byte) bool { return bytes.Equal(a, b) }
func verifStrEq(a, b string) bool   { return a == b }
func verifProgress(measure func() int, fns ...string) {}
func verifAllocBound(n int) { verifRTAllocLimit = n }
func verifLoopBound(fnSuffix string, iterations int) {}

// runs the operations concurrently; the replay binary is built with -race for harnesses
// whose expected outcome is a data race
func verifConcurrent(ops ...func()) {
	for round := 0; round < 50; round++ {
		done := make(chan struct{}, len(ops))
		for _, op := range ops {
			op := op
			go func() { op(); done <- struct{}{} }()
		}
		for range ops {
			<-done
		}
	}
}

// ---- JSON (native twin of the rope checker): encoding/json does the parsing ----
type verifRTDoc struct {
	valid bool
	root  interface{}
}

var verifRTDocs []verifRTDoc

func verifJSONParse(b []byte) int {
	d := verifRTDoc{valid: json.Valid(b)}
	if d.valid {
		dec := json.NewDecoder(bytes.NewReader(b))
		dec.UseNumber()
		if err := dec.Decode(&d.root); err != nil {
			d.valid = false
		}
	}
	verifRTDocs = append(verifRTDocs, d)
	return len(verifRTDocs)
}
func verifJSONValid(h int) bool { return verifRTDocs[h-1].valid }

// native twin: marshal, unmarshal into a fresh value of the same type, marshal again
func verifJSONTransparent(v interface{}) bool {
	if _, err := json.Marshal(v); err != nil {
		return false
	}
	return verifRTOpaque(reflect.TypeOf(v), map[reflect.Type]bool{}) == ""
}

// native twin of verifJSONCopy: the real encoding/json round trip
func verifJSONCopy(dst, src interface{}) {
	b, err := json.Marshal(src)
	if err != nil {
		panic("verifJSONCopy: " + err.Error())
	}
	if err := json.Unmarshal(b, dst); err != nil {
		panic("verifJSONCopy: " + err.Error())
	}
}

// the same structural rule as the executor's: every data-carrying field must be visible to
// encoding/json (exported, not tagged "-", no interface-typed data); mutexes carry no data
func verifRTOpaque(t reflect.Type, seen map[reflect.Type]bool) string {
	if seen[t] {
		return ""
	}
	seen[t] = true
	switch t.Kind() {
	case reflect.Ptr, reflect.Slice, reflect.Array:
		return verifRTOpaque(t.Elem(), seen)
	case reflect.Map:
		if r := verifRTOpaque(t.Key(), seen); r != "" {
			return r
		}
		return verifRTOpaque(t.Elem(), seen)
	case reflect.Struct:
		for i := 0; i < t.NumField(); i++ {
			f := t.Field(i)
			if f.Type.PkgPath() == "sync" && (f.Type.Name() == "RWMutex" || f.Type.Name() == "Mutex") {
				continue
			}
			if f.PkgPath != "" {
				return "field " + f.Name + " is unexported"
			}
			if f.Tag.Get("json") == "-" {
				return "field " + f.Name + " is tagged json:\"-\""
			}
			if r := verifRTOpaque(f.Type, seen); r != "" {
				return r
			}
		}
		return ""
	case reflect.Interface:
		return "interface-typed data"
	case reflect.Bool, reflect.Int, reflect.Int8, reflect.Int16, reflect.Int32, reflect.Int64, reflect.Uint, reflect.Uint8, reflect.Uint16, reflect.Uint32, reflect.Uint64, reflect.Uintptr, reflect.Float32, reflect.Float64, reflect.String:
		return ""
	}
	return "type not handled"
}
func verifRTGet(h int, path string) (interface{}, bool) {
	d := verifRTDocs[h-1]
	if !d.valid {
		return nil, false
	}
	cur := d.root
	for _, part := range strings.Split(path, ".") {
		if part == "" {
			continue
		}
		name := part
		var idxs []int
		for strings.HasSuffix(name, "]") {
			i := strings.LastIndexByte(name, '[')
			v, _ := strconv.Atoi(name[i+1 : len(name)-1])
			idxs = append([]int{v}, idxs...)
			name = name[:i]
		}
		if name != "" {
			m, ok := cur.(map[string]interface{})
			if !ok {
				return nil, false
			}
			cur, ok = m[name]
			if !ok {
				return nil, false
			}
		}
		for _, ix := range idxs {
			a, ok := cur.([]interface{})
			if !ok || ix >= len(a) {
				return nil, false
			}
			cur = a[ix]
		}
	}
	return cur, true
}
func verifJSONHas(h int, path string) bool { _, ok := verifRTGet(h, path); return ok }
func verifJSONLen(h int, path string) int {
	v, ok := verifRTGet(h, path)
	if !ok {
		return -1
	}
	switch x := v.(type) {
	case []interface{}:
		return len(x)
	case map[string]interface{}:
		return len(x)
	}
	return 0
}
func verifJSONNum(h int, path string, v uint64, signed bool) bool {
	x, ok := verifRTGet(h, path)
	n, isN := x.(json.Number)
	if !ok || !isN {
		return false
	}
	if signed {
		return string(n) == strconv.FormatInt(int64(v), 10)
	}
	return string(n) == strconv.FormatUint(v, 10)
}
func verifJSONFloat(h int, path string, bits uint64, width int) bool {
	x, ok := verifRTGet(h, path)
	n, isN := x.(json.Number)
	if !ok || !isN {
		return false
	}
	f, err := strconv.ParseFloat(string(n), width)
	if err != nil {
		return false
	}
	if width == 32 {
		return uint64(math.Float32bits(float32(f))) == bits
	}
	return math.Float64bits(f) == bits
}
func verifJSONStr(h int, path string, s string) bool {
	x, ok := verifRTGet(h, path)
	t, isS := x.(string)
	return ok && isS && t == s
}
func verifJSONBool(h int, path string, b bool) bool {
	x, ok := verifRTGet(h, path)
	t, isB := x.(bool)
	return ok && isB && t == b
}
`

const rtTest = `//go:build verif

package %s

import (
	"fmt"
	"runtime"
	"testing"
)

func TestVerifReplay(t *testing.T) {
	verifRTLoad()
	var m0 runtime.MemStats
	runtime.ReadMemStats(&m0)
	defer func() {
		r := recover()
		var m1 runtime.MemStats
		runtime.ReadMemStats(&m1)
		if verifRTAllocLimit >= 0 && m1.TotalAlloc-m0.TotalAlloc > uint64(verifRTAllocLimit)+(1<<20) {
			fmt.Printf("\nVERIF-REPLAY: alloc: %%d bytes allocated, bound %%d\n", m1.TotalAlloc-m0.TotalAlloc, verifRTAllocLimit)
		}
		switch x := r.(type) {
		case nil:
			fmt.Println("\nVERIF-REPLAY: done")
		case verifRTAssertFail:
			fmt.Println("\nVERIF-REPLAY: assert: " + x.msg)
		case verifRTAssumeFail:
			fmt.Println("\nVERIF-REPLAY: assume-failed")
		default:
			fmt.Printf("\nVERIF-REPLAY: panic: %%v\n", r)
		}
	}()
	switch verifRTFile.Entry {
%s
	default:
		panic("verif: unknown entry " + verifRTFile.Entry)
	}
}
`

// buildReplayOverlay writes the native twin of a harness into dir and returns the overlay map.
func buildReplayOverlay(ld *Loaded, pkgRel, hdir, dir string) (map[string]string, error) {
	ov := map[string]string{}
	pkgDir := filepath.Join(ld.repo, pkgRel)
	pkgName := ld.mainPkg.Name
	put := func(virtual string, content []byte) error {
		real := filepath.Join(dir, strings.ReplaceAll(strings.TrimPrefix(virtual, ld.repo+"/"), "/", "__"))
		if err := os.WriteFile(real, content, 0644); err != nil {
			return err
		}
		ov[virtual] = real
		return nil
	}
	files, _ := filepath.Glob(filepath.Join(hdir, "*.go"))
	sort.Strings(files)
	for _, f := range files {
		b, err := os.ReadFile(f)
		if err != nil {
			return nil, err
		}
		if err := put(filepath.Join(pkgDir, "zz_verif_"+filepath.Base(f)), b); err != nil {
			return nil, err
		}
	}
	if err := put(filepath.Join(pkgDir, "zz_verif_rt_native.go"), []byte(fmt.Sprintf(rtNative, pkgName))); err != nil {
		return nil, err
	}
	var cases strings.Builder
	var names []string
	for name, m := range ld.main.Members {
		if f, ok := m.(*ssa.Function); ok && strings.HasPrefix(name, "Verif") && f.Signature.Params().Len() == 0 && f.Signature.Results().Len() == 0 {
			names = append(names, name)
		}
	}
	sort.Strings(names)
	for _, n := range names {
		fmt.Fprintf(&cases, "\tcase %q:\n\t\t%s()\n", n, n)
	}
	if err := put(filepath.Join(pkgDir, "zz_verif_replay_test.go"), []byte(fmt.Sprintf(rtTest, pkgName, cases.String()))); err != nil {
		return nil, err
	}
	// replacements: rename same-package declarations, rewrite call sites of foreign ones
	edits, err := replacementEdits(ld)
	if err != nil {
		return nil, err
	}
	for file, es := range edits {
		src, err := os.ReadFile(file)
		if ovb, ok := ld.overlay[file]; ok {
			src, err = ovb, nil
		}
		if err != nil {
			return nil, err
		}
		sort.Slice(es, func(i, j int) bool { return es[i].off > es[j].off })
		for _, e := range es {
			src = append(src[:e.off:e.off], append([]byte(e.text), src[e.end:]...)...)
		}
		virtual := file
		if strings.Contains(filepath.Base(file), "zz_verif_") {
			// harness file: overwrite the copy written above
		}
		if err := put(virtual, src); err != nil {
			return nil, err
		}
	}
	return ov, nil
}

type srcEdit struct {
	off, end int
	text     string
}

// replacementEdits computes source edits that realise the //verif:replace table natively.
func replacementEdits(ld *Loaded) (map[string][]srcEdit, error) {
	edits := map[string][]srcEdit{}
	keep := map[string][]string{}
	if len(ld.replSrc) == 0 {
		return edits, nil
	}
	defer func() {
		for f, ks := range keep {
			src, err := os.ReadFile(f)
			if ovb, ok := ld.overlay[f]; ok {
				src, err = ovb, nil
			}
			if err != nil {
				continue
			}
			seen := map[string]bool{}
			tail := "\n"
			for _, k := range ks {
				if !seen[k] {
					seen[k] = true
					tail += "var _ = " + k + "\n"
				}
			}
			edits[f] = append(edits[f], srcEdit{len(src), len(src), tail})
		}
	}()
	p := ld.mainPkg
	fset := p.Fset
	fullName := func(f *types.Func) string {
		sig := f.Type().(*types.Signature)
		if r := sig.Recv(); r != nil {
			return "(" + types.TypeString(r.Type(), nil) + ")." + f.Name()
		}
		if f.Pkg() != nil {
			return f.Pkg().Path() + "." + f.Name()
		}
		return f.Name()
	}
	for _, file := range p.Syntax {
		fname := fset.Position(file.Pos()).Filename
		if strings.HasPrefix(filepath.Base(fname), "zz_verif_") {
			continue
		}
		// (1) same-package declarations
		for _, d := range file.Decls {
			fd, ok := d.(*ast.FuncDecl)
			if !ok {
				continue
			}
			obj, _ := p.TypesInfo.Defs[fd.Name].(*types.Func)
			if obj == nil {
				continue
			}
			if _, ok := ld.replSrc[fullName(obj)]; ok {
				pos := fset.Position(fd.Name.Pos()).Offset
				end := fset.Position(fd.Name.End()).Offset
				edits[fname] = append(edits[fname], srcEdit{pos, end, fd.Name.Name + "_verifOrig"})
			}
		}
		// (2) call sites of functions declared elsewhere
		ast.Inspect(file, func(n ast.Node) bool {
			call, ok := n.(*ast.CallExpr)
			if !ok {
				return true
			}
			sel, ok := call.Fun.(*ast.SelectorExpr)
			if !ok {
				return true
			}
			obj, _ := p.TypesInfo.Uses[sel.Sel].(*types.Func)
			if obj == nil || obj.Pkg() == p.Types {
				return true
			}
			h, ok := ld.replSrc[fullName(obj)]
			if !ok {
				return true
			}
			// do not rewrite inside the harness's own stub
			sig := obj.Type().(*types.Signature)
			start := fset.Position(call.Fun.Pos()).Offset
			lp := fset.Position(call.Lparen).Offset
			if sig.Recv() == nil {
				edits[fname] = append(edits[fname], srcEdit{start, lp, h})
				// keep the import used
				if src, err := os.ReadFile(fname); err == nil {
					if ovb, ok := ld.overlay[fname]; ok {
						src = ovb
					}
					keep[fname] = append(keep[fname], string(src[start:lp]))
				}
			} else {
				// x.M(args) => h(x, args)
				xs := fset.Position(sel.X.Pos()).Offset
				xe := fset.Position(sel.X.End()).Offset
				src, err := os.ReadFile(fname)
				if ovb, ok := ld.overlay[fname]; ok {
					src, err = ovb, nil
				}
				if err != nil {
					return true
				}
				recv := string(src[xs:xe])
				if _, isPtr := sig.Recv().Type().(*types.Pointer); isPtr {
					if tv, ok := p.TypesInfo.Types[sel.X]; ok {
						if _, xPtr := tv.Type.Underlying().(*types.Pointer); !xPtr {
							recv = "&" + recv
						}
					}
				}
				sep := ", "
				if len(call.Args) == 0 {
					sep = ""
				}
				edits[fname] = append(edits[fname], srcEdit{start, lp + 1, h + "(" + recv + sep})
			}
			return true
		})
	}
	return edits, nil
}

type replayBinary struct {
	dir, bin, pkgDir string
}

func newReplayBinary(pkgRel, hdir string) (*replayBinary, error) {
	ld, err := Load(repoRoot(), pkgRel, hdir)
	if err != nil {
		return nil, err
	}
	dir, err := os.MkdirTemp("", "verif-replay-")
	if err != nil {
		return nil, err
	}
	ov, err := buildReplayOverlay(ld, pkgRel, hdir, dir)
	if err != nil {
		os.RemoveAll(dir)
		return nil, err
	}
	ovj, _ := json.Marshal(map[string]interface{}{"Replace": ov})
	ovPath := filepath.Join(dir, "overlay.json")
	os.WriteFile(ovPath, ovj, 0644)
	rb := &replayBinary{dir: dir, bin: filepath.Join(dir, "replay.test"), pkgDir: filepath.Join(ld.repo, pkgRel)}
	build := exec.Command("go", "test", "-c", "-race", "-tags", "verif", "-vet=off", "-overlay", ovPath, "-o", rb.bin, ".")
	if !needRace(hdir) {
		build = exec.Command("go", "test", "-c", "-tags", "verif", "-vet=off", "-overlay", ovPath, "-o", rb.bin, ".")
	}
	build.Dir = rb.pkgDir
	build.Env = goEnv()
	if out, err := build.CombinedOutput(); err != nil {
		os.RemoveAll(dir)
		o := string(out)
		if len(o) > 1500 {
			o = o[:1500]
		}
		return nil, fmt.Errorf("replay build failed: %s", o)
	}
	return rb, nil
}

func (rb *replayBinary) Close() { os.RemoveAll(rb.dir) }

// Run executes one counterexample natively and fills rf.Outcome/Reproduced.
func (rb *replayBinary) Run(rf *ReplayFile, rfPath string) {
	abs, _ := filepath.Abs(rfPath)
	const limitS = 30
	run := exec.Command("bash", "-c", fmt.Sprintf("ulimit -v %d; exec timeout -s KILL %d %s -test.run '^TestVerifReplay$' -test.v -test.timeout 0", 6*1024*1024, limitS, rb.bin))
	run.Dir = rb.pkgDir
	run.Env = append(goEnv(), "VERIF_REPLAY="+abs, "GOMAXPROCS=2")
	var outb bytes.Buffer
	run.Stdout, run.Stderr = &outb, &outb
	t0 := time.Now()
	rerr := run.Run()
	el := time.Since(t0)
	out := outb.String()
	outcome := ""
	for _, l := range strings.Split(out, "\n") {
		if strings.HasPrefix(l, "VERIF-REPLAY: ") {
			o := strings.TrimPrefix(l, "VERIF-REPLAY: ")
			if outcome == "" || strings.HasPrefix(o, "alloc") {
				outcome = o
			}
		}
	}
	if strings.Contains(out, "WARNING: DATA RACE") {
		outcome = "race"
	}
	if outcome == "" {
		switch {
		case strings.Contains(out, "out of memory") || strings.Contains(out, "cannot allocate memory"):
			outcome = "out-of-memory"
		case strings.Contains(out, "fatal error:"):
			i := strings.Index(out, "fatal error:")
			e := strings.IndexByte(out[i:], '\n')
			outcome = out[i : i+e]
		case el > (limitS-1)*time.Second:
			outcome = "timeout"
		case rerr != nil:
			outcome = "exit: " + rerr.Error()
			if strings.Contains(out, "panic:") {
				i := strings.Index(out, "panic:")
				e := strings.IndexByte(out[i:], '\n')
				outcome = out[i : i+e]
			}
		default:
			outcome = "no-outcome"
		}
	}
	if os.Getenv("VERIF_REPLAY_VERBOSE") != "" {
		fmt.Println(out)
	}
	rf.Outcome = outcome
	rf.Reproduced = outcomeMatches(rf.Expect, outcome)
}

// harness directories whose files call verifConcurrent are replayed under the race detector
func needRace(hdir string) bool {
	files, _ := filepath.Glob(filepath.Join(hdir, "*.go"))
	for _, f := range files {
		b, _ := os.ReadFile(f)
		if strings.Contains(string(b), "verifConcurrent(") {
			return true
		}
	}
	return false
}

func outcomeMatches(v Violation, outcome string) bool {
	switch v.Kind {
	case "panic":
		return strings.HasPrefix(outcome, "panic:") || strings.HasPrefix(outcome, "fatal error:") || outcome == "out-of-memory"
	case "assert":
		// any oracle assertion failing natively on this input confirms a violation (when the
		// model over-approximates an effect, an earlier assertion of the same harness may be
		// the one that fires natively); so does a native crash
		return strings.HasPrefix(outcome, "assert: ") || strings.HasPrefix(outcome, "panic:") || strings.HasPrefix(outcome, "fatal error:")
	case "progress":
		return outcome == "timeout" || outcome == "out-of-memory" || strings.HasPrefix(outcome, "exit: signal: killed")
	case "alloc":
		return strings.HasPrefix(outcome, "alloc:") || outcome == "out-of-memory" || strings.Contains(outcome, "makeslice")
	case "exit":
		return strings.HasPrefix(outcome, "exit:")
	case "done":
		return outcome == "done"
	case "race":
		return outcome == "race" || strings.Contains(outcome, "concurrent map")
	}
	return false
}

func cmdReplay(args []string) int {
	if len(args) < 1 {
		fmt.Fprintln(os.Stderr, "usage: gosmt replay <file>")
		return 2
	}
	b, err := os.ReadFile(args[0])
	if err != nil {
		fmt.Fprintln(os.Stderr, err)
		return 2
	}
	var rf ReplayFile
	if err := json.Unmarshal(b, &rf); err != nil {
		fmt.Fprintln(os.Stderr, err)
		return 2
	}
	rb, err := newReplayBinary(rf.Pkg, rf.HarnessDir)
	if err != nil {
		fmt.Println("REPLAY-ERROR:", err)
		return 2
	}
	defer rb.Close()
	rb.Run(&rf, args[0])
	fmt.Printf("expected: %s %q at %s\nnative outcome: %s\n", rf.Expect.Kind, rf.Expect.Msg, rf.Expect.Where, rf.Outcome)
	if rf.Reproduced {
		fmt.Printf("VIOLATION property=%s replay=%s\n", rf.Property, args[0])
		return 1
	}
	fmt.Println("NOT-REPRODUCED")
	return 3
}
