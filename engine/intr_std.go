package main

import (
	"fmt"
	"go/types"
	"net"
	"path"
	"strconv"
	"strings"

	"golang.org/x/tools/go/ssa"
)

func noop(ret func(fn *ssa.Function) Value) intrinsic {
	return func(ex *Exec, st *State, fv FuncV, args []Value, res ssa.Value, at ssa.Instruction) bool {
		setRes(st, res, ret(fv.fn))
		return true
	}
}

func zeroResults(fn *ssa.Function) Value {
	r := fn.Signature.Results()
	switch r.Len() {
	case 0:
		return TupleV{}
	case 1:
		return zeroValue(r.At(0).Type())
	}
	tv := make(TupleV, r.Len())
	for i := range tv {
		tv[i] = zeroValue(r.At(i).Type())
	}
	return tv
}

func (ex *Exec) newErr(at ssa.Instruction, msg StrV) Value {
	w, _ := ex.where(at)
	id := ex.sol.FreshName("err")
	return IfaceV{t: ex.opaqueErrT, v: OpaqueV{kind: "err", id: id + "@" + w}}
}

func init() {
	reg := func(name string, f intrinsic) { intrinsics[name] = f }

	// ---- logging ---------------------------------------------------------------
	for _, m := range []string{"Println", "Printf", "Print", "SetOutput", "SetFlags", "SetPrefix"} {
		reg("(*log.Logger)."+m, noop(zeroResults))
		reg("log."+m, noop(zeroResults))
	}
	fatal := func(ex *Exec, st *State, fv FuncV, args []Value, res ssa.Value, at ssa.Instruction) bool {
		w, _ := ex.where(at)
		ex.Notes["process exit (log.Fatal) reachable at "+w]++
		if ex.fatalIsViolation {
			ex.check(st, tTrue, "exit", "log.Fatal terminates the process", at)
		}
		ex.endPath(st, "exit")
		return false
	}
	for _, m := range []string{"Fatal", "Fatalf", "Fatalln", "Panic", "Panicf", "Panicln"} {
		reg("(*log.Logger)."+m, fatal)
		reg("log."+m, fatal)
	}
	reg("os.Exit", fatal)
	reg("fmt.Printf", noop(zeroResults))
	reg("fmt.Println", noop(zeroResults))
	reg("fmt.Print", noop(zeroResults))

	// ---- errors ----------------------------------------------------------------
	reg("fmt.Errorf", func(ex *Exec, st *State, fv FuncV, args []Value, res ssa.Value, at ssa.Instruction) bool {
		setRes(st, res, ex.newErr(at, StrV{}))
		return true
	})
	reg("errors.New", func(ex *Exec, st *State, fv FuncV, args []Value, res ssa.Value, at ssa.Instruction) bool {
		setRes(st, res, ex.newErr(at, StrV{}))
		return true
	})

	// ---- sync ------------------------------------------------------------------
	lock := func(kind string) intrinsic {
		return func(ex *Exec, st *State, fv FuncV, args []Value, res ssa.Value, at ssa.Instruction) bool {
			p := args[0].(PtrV)
			if p.obj == 0 {
				ex.check(st, tTrue, "panic", "nil pointer dereference", at)
				ex.endPath(st, "panic")
				return false
			}
			ex.emitLock(st, p, kind)
			setRes(st, res, TupleV{})
			return true
		}
	}
	reg("(*sync.RWMutex).Lock", lock("Lock"))
	reg("(*sync.RWMutex).Unlock", lock("Unlock"))
	reg("(*sync.RWMutex).RLock", lock("RLock"))
	reg("(*sync.RWMutex).RUnlock", lock("RUnlock"))
	reg("(*sync.Mutex).Lock", lock("Lock"))
	reg("(*sync.Mutex).Unlock", lock("Unlock"))
	for _, m := range []string{"Add", "Done", "Wait"} {
		reg("(*sync.WaitGroup)."+m, noop(zeroResults))
	}
	// sync.Pool (where a harness does not replace it): Put remembers the object; Get hands out
	// either the object put back last or a new one (New) — the solver's choice, so that code
	// which keeps using an object after Put meets its next user
	poolKey := func(p PtrV) string { return fmt.Sprintf("pool:%d%s", p.obj, pathString(p.path)) }
	reg("(*sync.Pool).Get", func(ex *Exec, st *State, fv FuncV, args []Value, res ssa.Value, at ssa.Instruction) bool {
		p := args[0].(PtrV)
		pool := st.load(p).(StructV)
		// field "New" is the last field of sync.Pool
		nf, hasNew := pool.f[len(pool.f)-1].(FuncV)
		hasNew = hasNew && nf.fn != nil
		var list []Value
		if l, ok := st.ghost[poolKey(p)].(TupleV); ok {
			list = l
		}
		fresh := func(st *State) {
			if !hasNew {
				setRes(st, res, IfaceV{})
				return
			}
			ex.enter(st, nf, nil, res, at)
		}
		if len(list) == 0 {
			if !hasNew {
				setRes(st, res, IfaceV{})
				return true
			}
			return ex.enter(st, nf, nil, res, at)
		}
		return ex.forkAlts(st, []alt{
			{cond: tTrue, apply: func(st *State) {
				l := st.ghost[poolKey(p)].(TupleV)
				v := l[len(l)-1]
				st.ghost[poolKey(p)] = append(TupleV(nil), l[:len(l)-1]...)
				setRes(st, res, v)
			}},
			{cond: tTrue, apply: fresh},
		})
	})
	reg("(*sync.Pool).Put", func(ex *Exec, st *State, fv FuncV, args []Value, res ssa.Value, at ssa.Instruction) bool {
		p := args[0].(PtrV)
		if st.ghost == nil {
			st.ghost = map[string]Value{}
		}
		var list TupleV
		if l, ok := st.ghost[poolKey(p)].(TupleV); ok {
			list = l
		}
		st.ghost[poolKey(p)] = append(append(TupleV(nil), list...), args[1])
		setRes(st, res, TupleV{})
		return true
	})

	atomicAdd := func(ex *Exec, st *State, fv FuncV, args []Value, res ssa.Value, at ssa.Instruction) bool {
		p := args[0].(PtrV)
		if p.obj == 0 {
			ex.check(st, tTrue, "panic", "nil pointer dereference", at)
			ex.endPath(st, "panic")
			return false
		}
		ex.emitAtomic(st, p)
		nv := bvBin("bvadd", st.load(p).(*Term), args[1].(*Term))
		st.store(p, nv)
		setRes(st, res, nv)
		return true
	}
	atomicLoad := func(ex *Exec, st *State, fv FuncV, args []Value, res ssa.Value, at ssa.Instruction) bool {
		p := args[0].(PtrV)
		if p.obj == 0 {
			ex.check(st, tTrue, "panic", "nil pointer dereference", at)
			ex.endPath(st, "panic")
			return false
		}
		ex.emitAtomic(st, p)
		setRes(st, res, st.load(p))
		return true
	}
	atomicStore := func(ex *Exec, st *State, fv FuncV, args []Value, res ssa.Value, at ssa.Instruction) bool {
		p := args[0].(PtrV)
		ex.emitAtomic(st, p)
		st.store(p, args[1])
		setRes(st, res, TupleV{})
		return true
	}
	for _, t := range []string{"Int32", "Int64", "Uint32", "Uint64"} {
		reg("sync/atomic.Add"+t, atomicAdd)
		reg("sync/atomic.Load"+t, atomicLoad)
		reg("sync/atomic.Store"+t, atomicStore)
	}

	// ---- files: absent unless a harness replaces the call -------------------------
	for _, n := range []string{"io/ioutil.ReadFile", "os.ReadFile"} {
		reg(n, func(ex *Exec, st *State, fv FuncV, args []Value, res ssa.Value, at ssa.Instruction) bool {
			ex.Notes["file read modelled as 'no such file' (no harness replacement given)"]++
			setRes(st, res, TupleV{zeroValue(fv.fn.Signature.Results().At(0).Type()), ex.newErr(at, StrV{})})
			return true
		})
	}

	// ---- time ------------------------------------------------------------------
	reg("time.Now", func(ex *Exec, st *State, fv FuncV, args []Value, res ssa.Value, at ssa.Instruction) bool {
		setRes(st, res, zeroValue(fv.fn.Signature.Results().At(0).Type()))
		return true
	})
	reg("(time.Time).Unix", func(ex *Exec, st *State, fv FuncV, args []Value, res ssa.Value, at ssa.Instruction) bool {
		setRes(st, res, ex.fresh("now", 64))
		return true
	})
	reg("(time.Time).UnixNano", func(ex *Exec, st *State, fv FuncV, args []Value, res ssa.Value, at ssa.Instruction) bool {
		setRes(st, res, ex.fresh("now", 64))
		return true
	})
	reg("(time.Time).Add", func(ex *Exec, st *State, fv FuncV, args []Value, res ssa.Value, at ssa.Instruction) bool {
		setRes(st, res, args[0])
		return true
	})
	reg("time.Sleep", noop(zeroResults))

	// ---- math ------------------------------------------------------------------
	reg("math.Float32frombits", func(ex *Exec, st *State, fv FuncV, args []Value, res ssa.Value, at ssa.Instruction) bool {
		setRes(st, res, FloatV{bits: args[0].(*Term), w: 32})
		return true
	})
	reg("math.Float64frombits", func(ex *Exec, st *State, fv FuncV, args []Value, res ssa.Value, at ssa.Instruction) bool {
		setRes(st, res, FloatV{bits: args[0].(*Term), w: 64})
		return true
	})

	fparts := func(f FloatV) (expOnes, mantZero, neg *Term) {
		if f.w == 32 {
			return tEq(bvExtract(30, 23, f.bits), bvConst(0xff, 8)), tEq(bvExtract(22, 0, f.bits), bvConst(0, 23)), tEq(bvExtract(31, 31, f.bits), bvConst(1, 1))
		}
		return tEq(bvExtract(62, 52, f.bits), bvConst(0x7ff, 11)), tEq(bvExtract(51, 0, f.bits), bvConst(0, 52)), tEq(bvExtract(63, 63, f.bits), bvConst(1, 1))
	}
	reg("math.IsNaN", func(ex *Exec, st *State, fv FuncV, args []Value, res ssa.Value, at ssa.Instruction) bool {
		e, m, _ := fparts(args[0].(FloatV))
		setRes(st, res, tAnd(e, tNot(m)))
		return true
	})
	reg("math.IsInf", func(ex *Exec, st *State, fv FuncV, args []Value, res ssa.Value, at ssa.Instruction) bool {
		e, m, neg := fparts(args[0].(FloatV))
		sign := args[1].(*Term)
		if !sign.isConst {
			fail("math.IsInf with a symbolic sign")
		}
		r := tAnd(e, m)
		if sext(sign.v, sign.w) > 0 {
			r = tAnd(r, tNot(neg))
		} else if sext(sign.v, sign.w) < 0 {
			r = tAnd(r, neg)
		}
		setRes(st, res, r)
		return true
	})
	reg("math.Float32bits", func(ex *Exec, st *State, fv FuncV, args []Value, res ssa.Value, at ssa.Instruction) bool {
		f := args[0].(FloatV)
		if f.w != 32 {
			fail("Float32bits of a float made from %d bits", f.w)
		}
		setRes(st, res, f.bits)
		return true
	})
	reg("math.Float64bits", func(ex *Exec, st *State, fv FuncV, args []Value, res ssa.Value, at ssa.Instruction) bool {
		f := args[0].(FloatV)
		if f.w != 64 {
			fail("Float64bits of a float made from %d bits", f.w)
		}
		setRes(st, res, f.bits)
		return true
	})

	// ---- net -------------------------------------------------------------------
	reg("(net.IP).To4", func(ex *Exec, st *State, fv FuncV, args []Value, res ssa.Value, at ssa.Instruction) bool {
		ip := args[0].(SliceV)
		if ip.obj == 0 {
			setRes(st, res, ip)
			return true
		}
		c := st.container(ip).(BytesV)
		at4 := tEq(ip.len, u64(4))
		mapped := tEq(ip.len, u64(16))
		for i := 0; i < 12; i++ {
			want := uint64(0)
			if i >= 10 {
				want = 0xff
			}
			mapped = tAnd(mapped, tEq(c.a.sel(bvBin("bvadd", ip.off, u64(int64(i)))), bvConst(want, 8)))
		}
		return ex.forkAlts(st, []alt{
			{at4, func(st *State) { setRes(st, res, ip) }},
			{tAnd(tNot(at4), mapped), func(st *State) {
				setRes(st, res, SliceV{obj: ip.obj, path: ip.path, off: bvBin("bvadd", ip.off, u64(12)), len: u64(4), cap: bvBin("bvsub", ip.cap, u64(12))})
			}},
			{tAnd(tNot(at4), tNot(mapped)), func(st *State) { setRes(st, res, zeroValue(fv.fn.Signature.Results().At(0).Type())) }},
		})
	})
	reg("net.ParseIP", func(ex *Exec, st *State, fv FuncV, args []Value, res ssa.Value, at ssa.Instruction) bool {
		s, ok := args[0].(StrV).concrete()
		if !ok {
			fail("net.ParseIP of a non-literal string")
		}
		ip := net.ParseIP(s)
		if ip == nil {
			setRes(st, res, zeroValue(fv.fn.Signature.Results().At(0).Type()))
			return true
		}
		setRes(st, res, ex.concreteBytes(st, []byte(ip)))
		return true
	})

	// ---- fmt.Fprintf(w, format) with no operands ---------------------------------
	reg("fmt.Fprintf", fprintfIntrinsic)

	// ---- concrete string helpers -------------------------------------------------
	conc := func(name string, f func(a []interface{}) []interface{}) {
		reg(name, func(ex *Exec, st *State, fv FuncV, args []Value, res ssa.Value, at ssa.Instruction) bool {
			var in []interface{}
			for _, a := range args {
				switch x := a.(type) {
				case StrV:
					s, ok := x.concrete()
					if !ok {
						fail("%s on a non-literal string (%s)", name, describe(x))
					}
					in = append(in, s)
				case *Term:
					if !x.isConst {
						fail("%s on a symbolic value", name)
					}
					if x.w == 0 {
						in = append(in, x.v == 1)
					} else {
						in = append(in, int64(sext(x.v, x.w)))
					}
				case SliceV:
					// []string
					var ss []string
					if x.obj != 0 {
						for _, e := range st.container(x).(ArrV).e[x.off.v : x.off.v+x.len.v] {
							s, ok := e.(StrV).concrete()
							if !ok {
								fail("%s on a non-literal string", name)
							}
							ss = append(ss, s)
						}
					}
					in = append(in, ss)
				default:
					fail("%s: unsupported argument %T", name, a)
				}
			}
			out := f(in)
			rt := fv.fn.Signature.Results()
			vals := make(TupleV, len(out))
			for i, o := range out {
				switch x := o.(type) {
				case string:
					vals[i] = litStr(x)
				case bool:
					vals[i] = boolConst(x)
				case int64:
					w, _, _ := intInfo(rt.At(i).Type())
					vals[i] = bvConst(uint64(x), w)
				case error:
					if x == nil {
						vals[i] = IfaceV{}
					} else {
						vals[i] = ex.newErr(at, litStr(x.Error()))
					}
				case nil:
					vals[i] = IfaceV{}
				case []string:
					es := make([]Value, len(x))
					for j, s := range x {
						es[j] = litStr(s)
					}
					id := st.alloc(types.NewArray(types.Typ[types.String], int64(len(es))), ArrV{e: es})
					vals[i] = SliceV{obj: id, off: u64(0), len: u64(int64(len(es))), cap: u64(int64(len(es)))}
				}
			}
			if len(vals) == 1 {
				setRes(st, res, vals[0])
			} else {
				setRes(st, res, vals)
			}
			return true
		})
	}
	conc("strings.ToUpper", func(a []interface{}) []interface{} { return []interface{}{strings.ToUpper(a[0].(string))} })
	conc("strings.ToLower", func(a []interface{}) []interface{} { return []interface{}{strings.ToLower(a[0].(string))} })
	conc("strings.TrimSpace", func(a []interface{}) []interface{} { return []interface{}{strings.TrimSpace(a[0].(string))} })
	conc("strings.Split", func(a []interface{}) []interface{} { return []interface{}{strings.Split(a[0].(string), a[1].(string))} })
	conc("strings.Replace", func(a []interface{}) []interface{} {
		return []interface{}{strings.Replace(a[0].(string), a[1].(string), a[2].(string), int(a[3].(int64)))}
	})
	conc("strings.Join", func(a []interface{}) []interface{} {
		return []interface{}{strings.Join(a[0].([]string), a[1].(string))}
	})
	conc("strings.ReplaceAll", func(a []interface{}) []interface{} {
		return []interface{}{strings.ReplaceAll(a[0].(string), a[1].(string), a[2].(string))}
	})
	conc("path.Split", func(a []interface{}) []interface{} {
		d, f := path.Split(a[0].(string))
		return []interface{}{d, f}
	})
	conc("path.Join", func(a []interface{}) []interface{} { return []interface{}{path.Join(a[0].([]string)...)} })
	conc("net.JoinHostPort", func(a []interface{}) []interface{} {
		return []interface{}{net.JoinHostPort(a[0].(string), a[1].(string))}
	})
	conc("strconv.Atoi", func(a []interface{}) []interface{} {
		v, err := strconv.Atoi(a[0].(string))
		return []interface{}{int64(v), err}
	})
	conc("strconv.ParseBool", func(a []interface{}) []interface{} {
		v, err := strconv.ParseBool(a[0].(string))
		return []interface{}{v, err}
	})
	conc("strconv.ParseUint", func(a []interface{}) []interface{} {
		v, err := strconv.ParseUint(a[0].(string), int(a[1].(int64)), int(a[2].(int64)))
		return []interface{}{int64(v), err}
	})
}

func (ex *Exec) concreteBytes(st *State, b []byte) SliceV {
	var a *ArrExpr = &ArrExpr{kind: 1, w: 8}
	for i, c := range b {
		a = a.store(u64(int64(i)), bvConst(uint64(c), 8))
	}
	n := u64(int64(len(b)))
	id := st.alloc(types.NewArray(types.Typ[types.Uint8], 0), BytesV{a: a, n: n, w: 8})
	return SliceV{obj: id, off: u64(0), len: n, cap: n}
}

// fmt.Fprintf(w, format) without operands: writes format verbatim unless it contains
// a '%'; then the output is something else (contract of package fmt), modelled as
// unconstrained octets.
func fprintfIntrinsic(ex *Exec, st *State, fv FuncV, args []Value, res ssa.Value, at ssa.Instruction) bool {
	w := args[0].(IfaceV)
	format := args[1].(StrV)
	if va, ok := args[2].(SliceV); ok && va.obj != 0 && !(va.len.isConst && va.len.v == 0) {
		// literal format made of text and %s verbs with string / []byte operands
		f, okf := format.concrete()
		if !okf || !va.len.isConst || !va.off.isConst {
			fail("fmt.Fprintf with operands and a non-literal format")
		}
		ops := st.container(va).(ArrV).e[va.off.v : va.off.v+va.len.v]
		out := StrV{}
		oi := 0
		for i := 0; i < len(f); i++ {
			if f[i] != '%' {
				out = out.concat(litStr(f[i : i+1]))
				continue
			}
			if i+1 < len(f) && f[i+1] == '%' {
				out = out.concat(litStr("%"))
				i++
				continue
			}
			if i+1 >= len(f) || f[i+1] != 's' || oi >= len(ops) {
				fail("fmt.Fprintf format %q is not modelled", f)
			}
			op := ops[oi].(IfaceV)
			oi++
			i++
			switch x := op.v.(type) {
			case StrV:
				out = out.concat(x)
			case SliceV:
				out = out.concat(ex.bytesToString(st, x))
			default:
				fail("fmt.Fprintf %%s operand of type %v is not modelled", op.t)
			}
		}
		if oi != len(ops) {
			fail("fmt.Fprintf with extra operands")
		}
		// the rendered text is written verbatim ('%' inside operands is not interpreted)
		if w.t == nil {
			ex.check(st, tTrue, "panic", "nil interface method call", at)
			ex.endPath(st, "panic")
			return false
		}
		m := ex.prog.LookupMethod(w.t, nil, "Write")
		if m == nil {
			fail("fmt.Fprintf: no Write method on %s", w.t)
		}
		b := ex.stringToBytes(st, out)
		if !ex.enter(st, FuncV{fn: m}, []Value{w.v, b}, nil, at) {
			return false
		}
		st.top().onReturn = func(st *State, r Value) { setRes(st, res, r) }
		return true
	}
	if w.t == nil {
		ex.check(st, tTrue, "panic", "nil interface method call", at)
		ex.endPath(st, "panic")
		return false
	}
	m := ex.prog.LookupMethod(w.t, nil, "Write")
	if m == nil {
		fail("fmt.Fprintf: no Write method on %s", w.t)
	}
	// does the format contain '%' ?
	hasPct := tFalse
	for _, g := range format.segs {
		switch g.op {
		case "":
			if strings.Contains(g.lit, "%") {
				hasPct = tTrue
			}
		case "bytes":
			sn := g.args[0].(SliceSnap)
			if !sn.len.isConst {
				// case split on the length first
				return ex.forkOnValues(st, sn.len, 64, "length of the Fprintf format", func(s *State, v uint64) bool {
					s.top().ip-- // re-execute the call with the length fixed
					nargs := append([]Value(nil), args...)
					nf := StrV{}
					for _, g2 := range format.segs {
						if g2.op == "bytes" && g2.args[0].(SliceSnap).len.s == sn.len.s {
							sn2 := g2.args[0].(SliceSnap)
							nf = nf.concat(StrV{segs: []Seg{{op: "bytes", args: []Value{SliceSnap{a: sn2.a, off: sn2.off, len: u64(int64(v))}}}}})
						} else {
							nf = nf.concat(StrV{segs: []Seg{g2}})
						}
					}
					nargs[1] = nf
					s.top().ip++
					return fprintfIntrinsic(ex, s, fv, nargs, res, at)
				})
			}
			for i := uint64(0); i < sn.len.v; i++ {
				hasPct = tOr(hasPct, tEq(sn.a.sel(bvBin("bvadd", sn.off, u64(int64(i)))), bvConst('%', 8)))
			}
		default:
			fail("fmt.Fprintf with opaque format segment %s", g.op)
		}
	}
	clean := func(st *State) {
		b := ex.stringToBytes(st, format)
		tup := func(st *State, r Value) { // Write returns (n, err); Fprintf returns the same
			setRes(st, res, r)
		}
		if !ex.enter(st, FuncV{fn: m}, []Value{w.v, b}, nil, at) {
			return
		}
		st.top().onReturn = tup
	}
	mangled := func(st *State) {
		n := ex.fresh("fmtlen", 64)
		ex.sol.Assert(bvCmp("bvult", n, u64(1<<16)))
		name := ex.sol.FreshName("FMT")
		ex.sol.Declare(name, arrSort(8))
		id := st.alloc(types.NewArray(types.Typ[types.Uint8], 0), BytesV{a: &ArrExpr{kind: 0, name: name, w: 8}, n: n, w: 8})
		b := SliceV{obj: id, off: u64(0), len: n, cap: n}
		ex.note(st, "fmt.Fprintf interpreted a '%' in the message as a formatting verb")
		if !ex.enter(st, FuncV{fn: m}, []Value{w.v, b}, nil, at) {
			return
		}
		st.top().onReturn = func(st *State, r Value) { setRes(st, res, r) }
	}
	return ex.forkAlts(st, []alt{{tNot(hasPct), clean}, {hasPct, mangled}})
}

var _ = fmt.Sprint
