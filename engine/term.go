package main

import (
	"fmt"
	"strings"
)

// Term is an SMT term: w==0 means Bool, otherwise a bit-vector of width w.
// The textual form is built eagerly; long terms are named with define-fun in the
// solver scope in which they are created (safe because exploration is depth-first:
// a value never outlives the solver scope it was created in).
type Term struct {
	s       string
	w       int
	isConst bool
	v       uint64
	lin     *Term // if non-nil this term is (bvadd lin linC)
	linC    uint64
	op      string
	args    []*Term
}

// curSolver is the solver of this process; used for naming long terms.
var curSolver *Solver

const nameThreshold = 200

func mask(w int) uint64 {
	if w >= 64 {
		return ^uint64(0)
	}
	return (uint64(1) << uint(w)) - 1
}

func bvConst(v uint64, w int) *Term {
	v &= mask(w)
	var s string
	if w%4 == 0 {
		s = fmt.Sprintf("#x%0*x", w/4, v)
	} else {
		s = fmt.Sprintf("(_ bv%d %d)", v, w)
	}
	return &Term{s: s, w: w, isConst: true, v: v}
}

var tTrue = &Term{s: "true", w: 0, isConst: true, v: 1}
var tFalse = &Term{s: "false", w: 0, isConst: true, v: 0}

func boolConst(b bool) *Term {
	if b {
		return tTrue
	}
	return tFalse
}

func finish(t *Term) *Term {
	if len(t.s) > nameThreshold && curSolver != nil {
		return curSolver.Name(t)
	}
	return t
}

func mk(w int, op string, args ...*Term) *Term {
	var sb strings.Builder
	sb.WriteByte('(')
	sb.WriteString(op)
	for _, a := range args {
		sb.WriteByte(' ')
		sb.WriteString(a.s)
	}
	sb.WriteByte(')')
	return finish(&Term{s: sb.String(), w: w, op: op, args: args})
}

func rawTerm(s string, w int) *Term { return finish(&Term{s: s, w: w}) }

func sext(v uint64, w int) int64 {
	if w >= 64 {
		return int64(v)
	}
	if v&(1<<uint(w-1)) != 0 {
		return int64(v | ^mask(w))
	}
	return int64(v)
}

func tNot(a *Term) *Term {
	if a.isConst {
		return boolConst(a.v == 0)
	}
	if a.op == "not" {
		return a.args[0]
	}
	return mk(0, "not", a)
}
func tAnd(a, b *Term) *Term {
	if a.isConst {
		if a.v == 0 {
			return tFalse
		}
		return b
	}
	if b.isConst {
		if b.v == 0 {
			return tFalse
		}
		return a
	}
	return mk(0, "and", a, b)
}
func tOr(a, b *Term) *Term {
	if a.isConst {
		if a.v == 1 {
			return tTrue
		}
		return b
	}
	if b.isConst {
		if b.v == 1 {
			return tTrue
		}
		return a
	}
	return mk(0, "or", a, b)
}
func tImplies(a, b *Term) *Term { return tOr(tNot(a), b) }
func tIte(c, a, b *Term) *Term {
	if c.isConst {
		if c.v == 1 {
			return a
		}
		return b
	}
	if a.s == b.s {
		return a
	}
	if a.w == 0 && a.isConst && b.isConst {
		if a.v == 1 && b.v == 0 {
			return c
		}
		if a.v == 0 && b.v == 1 {
			return tNot(c)
		}
	}
	return mk(a.w, "ite", c, a, b)
}
func tEq(a, b *Term) *Term {
	if a.isConst && b.isConst {
		return boolConst(a.v == b.v)
	}
	if a.s == b.s {
		return tTrue
	}
	if a.w != b.w {
		panic(fmt.Sprintf("tEq: width mismatch %d vs %d (%s, %s)", a.w, b.w, a.s, b.s))
	}
	return mk(0, "=", a, b)
}

func bvBin(op string, a, b *Term) *Term {
	w := a.w
	if a.w != b.w {
		panic(fmt.Sprintf("bvBin %s: width mismatch %d vs %d", op, a.w, b.w))
	}
	if a.isConst && b.isConst {
		m := mask(w)
		switch op {
		case "bvadd":
			return bvConst(a.v+b.v, w)
		case "bvsub":
			return bvConst(a.v-b.v, w)
		case "bvmul":
			return bvConst(a.v*b.v, w)
		case "bvand":
			return bvConst(a.v&b.v, w)
		case "bvor":
			return bvConst(a.v|b.v, w)
		case "bvxor":
			return bvConst(a.v^b.v, w)
		case "bvshl":
			if b.v >= uint64(w) {
				return bvConst(0, w)
			}
			return bvConst((a.v<<b.v)&m, w)
		case "bvlshr":
			if b.v >= uint64(w) {
				return bvConst(0, w)
			}
			return bvConst(a.v>>b.v, w)
		case "bvudiv":
			if b.v != 0 {
				return bvConst(a.v/b.v, w)
			}
		case "bvurem":
			if b.v != 0 {
				return bvConst(a.v%b.v, w)
			}
		case "bvsdiv":
			if b.v != 0 {
				x, y := sext(a.v, w), sext(b.v, w)
				if !(y == -1 && x == sext(1<<uint(w-1), w)) {
					return bvConst(uint64(x/y), w)
				}
			}
		case "bvsrem":
			if b.v != 0 {
				x, y := sext(a.v, w), sext(b.v, w)
				if y != -1 {
					return bvConst(uint64(x%y), w)
				}
				return bvConst(0, w)
			}
		}
	}
	// unsigned division / remainder by a power of two: shift / mask (no division circuit)
	if (op == "bvurem" || op == "bvudiv") && b.isConst && b.v != 0 && b.v&(b.v-1) == 0 {
		k := 0
		for (uint64(1) << uint(k)) != b.v {
			k++
		}
		if op == "bvurem" {
			return bvBin("bvand", a, bvConst(b.v-1, w))
		}
		return bvBin("bvlshr", a, bvConst(uint64(k), w))
	}
	// canonicalise x - c  ==>  x + (-c), and fold (x + c1) + c2
	if op == "bvsub" && b.isConst {
		return bvBin("bvadd", a, bvConst(-b.v, w))
	}
	if op == "bvadd" && a.isConst && !b.isConst {
		a, b = b, a
	}
	if op == "bvadd" && b.isConst && a.lin != nil {
		return bvBin("bvadd", a.lin, bvConst(a.linC+b.v, w))
	}
	if op == "bvadd" && b.isConst && b.v != 0 {
		t := mk(w, op, a, b)
		t.lin, t.linC = a, b.v
		return t
	}
	// (x + c) - x  and  (x+c1) - (x+c2)
	if op == "bvsub" {
		ab, ac := a, uint64(0)
		if a.lin != nil {
			ab, ac = a.lin, a.linC
		}
		bb, bc := b, uint64(0)
		if b.lin != nil {
			bb, bc = b.lin, b.linC
		}
		if ab.s == bb.s {
			return bvConst(ac-bc, w)
		}
	}
	// light identities
	if b.isConst && b.v == 0 && (op == "bvadd" || op == "bvsub" || op == "bvor" || op == "bvxor" || op == "bvshl" || op == "bvlshr") {
		return a
	}
	if a.isConst && a.v == 0 && (op == "bvadd" || op == "bvor" || op == "bvxor") {
		return b
	}
	if op == "bvand" {
		if b.isConst && b.v == mask(w) {
			return a
		}
		if a.isConst && a.v == mask(w) {
			return b
		}
		if (b.isConst && b.v == 0) || (a.isConst && a.v == 0) {
			return bvConst(0, w)
		}
	}
	if op == "bvmul" {
		if b.isConst && b.v == 1 {
			return a
		}
		if a.isConst && a.v == 1 {
			return b
		}
	}
	return mk(w, op, a, b)
}

func bvCmp(op string, a, b *Term) *Term {
	if a.w != b.w {
		panic(fmt.Sprintf("bvCmp %s: width mismatch %d vs %d", op, a.w, b.w))
	}
	if a.isConst && b.isConst {
		w := a.w
		switch op {
		case "bvult":
			return boolConst(a.v < b.v)
		case "bvule":
			return boolConst(a.v <= b.v)
		case "bvugt":
			return boolConst(a.v > b.v)
		case "bvuge":
			return boolConst(a.v >= b.v)
		case "bvslt":
			return boolConst(sext(a.v, w) < sext(b.v, w))
		case "bvsle":
			return boolConst(sext(a.v, w) <= sext(b.v, w))
		case "bvsgt":
			return boolConst(sext(a.v, w) > sext(b.v, w))
		case "bvsge":
			return boolConst(sext(a.v, w) >= sext(b.v, w))
		}
	}
	if a.s == b.s {
		switch op {
		case "bvule", "bvuge", "bvsle", "bvsge":
			return tTrue
		default:
			return tFalse
		}
	}
	return mk(0, op, a, b)
}

func bvExtract(hi, lo int, a *Term) *Term {
	if a.isConst {
		return bvConst(a.v>>uint(lo), hi-lo+1)
	}
	return rawTerm(fmt.Sprintf("((_ extract %d %d) %s)", hi, lo, a.s), hi-lo+1)
}
func bvZext(a *Term, w int) *Term {
	if a.w == w {
		return a
	}
	if a.isConst {
		return bvConst(a.v, w)
	}
	return rawTerm(fmt.Sprintf("((_ zero_extend %d) %s)", w-a.w, a.s), w)
}
func bvSext(a *Term, w int) *Term {
	if a.w == w {
		return a
	}
	if a.isConst {
		return bvConst(uint64(sext(a.v, a.w)), w)
	}
	return rawTerm(fmt.Sprintf("((_ sign_extend %d) %s)", w-a.w, a.s), w)
}

// convert integer term a (signedness of source) to width w.
func bvConv(a *Term, srcSigned bool, w int) *Term {
	if a.w == w {
		return a
	}
	if a.w > w {
		return bvExtract(w-1, 0, a)
	}
	if srcSigned {
		return bvSext(a, w)
	}
	return bvZext(a, w)
}

func sortOf(w int) string {
	if w == 0 {
		return "Bool"
	}
	return fmt.Sprintf("(_ BitVec %d)", w)
}

func u64(v int64) *Term { return bvConst(uint64(v), 64) }
