package main

import (
	"fmt"
	"go/types"

	"golang.org/x/tools/go/ssa"
)

type Obj struct {
	typ types.Type
	val Value
}

type Frame struct {
	fn     *ssa.Function
	block  *ssa.BasicBlock
	prev   *ssa.BasicBlock
	ip     int
	env    map[ssa.Value]Value
	call   ssa.Value // instruction in the caller that receives the result
	defers []deferred
	visits map[int]int // loop header visit counts
	// onReturn, if set, receives the result instead of the caller's environment
	onReturn func(st *State, res Value)
	sync     bool          // synchronous call: run() returns when this frame returns
	measures map[int]*Term // progress monitor: last measure per loop header
}

type deferred struct {
	fn      Value
	args    []Value
	call    *ssa.CallCommon
	builtin *ssa.Builtin
}

type State struct {
	heap    map[int]*Obj
	globals map[*ssa.Global]int
	frames  []*Frame
	nextObj *int
	nondet  []nondetRec
	events  []Event
	ghost   map[string]Value // engine-side per-path variables (monitors)
	notes   []string
	traceOn bool // trace mode (C10): record lock / map events
	thread  int  // current thread of trace mode
	// trace mode: objects allocated before the concurrent phase (id <= phaseBase) are shared;
	// an object allocated by a thread during the phase becomes shared when a reference to it
	// is stored into a shared object (published)
	phaseBase int
	published map[int]bool
}

type nondetRec struct {
	fn   string // harness function that asked
	name string // solver symbol
	kind string // "bv","bool","bytes"
	w    int
	lenT *Term
}

func (st *State) clone() *State {
	n := &State{heap: make(map[int]*Obj, len(st.heap)), globals: st.globals, nextObj: st.nextObj}
	n.traceOn, n.thread, n.phaseBase = st.traceOn, st.thread, st.phaseBase
	if st.published != nil {
		n.published = make(map[int]bool, len(st.published))
		for k := range st.published {
			n.published[k] = true
		}
	}
	n.events = append([]Event(nil), st.events...)
	n.notes = append([]string(nil), st.notes...)
	if st.ghost != nil {
		n.ghost = make(map[string]Value, len(st.ghost))
		for k, v := range st.ghost {
			n.ghost[k] = v
		}
	}
	for k, v := range st.heap {
		n.heap[k] = v
	}
	n.nondet = append([]nondetRec(nil), st.nondet...)
	n.frames = make([]*Frame, len(st.frames))
	for i, f := range st.frames {
		nf := *f
		nf.env = make(map[ssa.Value]Value, len(f.env))
		for k, v := range f.env {
			nf.env[k] = v
		}
		nf.defers = append([]deferred(nil), f.defers...)
		nf.visits = make(map[int]int, len(f.visits))
		for k, v := range f.visits {
			nf.visits[k] = v
		}
		if f.measures != nil {
			nf.measures = make(map[int]*Term, len(f.measures))
			for k, v := range f.measures {
				nf.measures[k] = v
			}
		}
		n.frames[i] = &nf
	}
	return n
}

func (st *State) alloc(t types.Type, v Value) int {
	*st.nextObj++
	id := *st.nextObj
	st.heap[id] = &Obj{typ: t, val: v}
	return id
}

func (st *State) top() *Frame { return st.frames[len(st.frames)-1] }

// ---- zero values -----------------------------------------------------------

func zeroValue(t types.Type) Value {
	switch u := t.Underlying().(type) {
	case *types.Basic:
		if w, _, ok := intInfo(t); ok {
			return bvConst(0, w)
		}
		if isBool(t) {
			return tFalse
		}
		if isString(t) {
			return StrV{}
		}
		if u.Kind() == types.UnsafePointer {
			return PtrV{}
		}
		if u.Kind() == types.Float32 {
			return FloatV{bits: bvConst(0, 32), w: 32}
		}
		if u.Kind() == types.Float64 {
			return FloatV{bits: bvConst(0, 64), w: 64}
		}
	case *types.Pointer:
		return PtrV{}
	case *types.Slice:
		return SliceV{off: u64(0), len: u64(0), cap: u64(0)}
	case *types.Struct:
		s := StructV{f: make([]Value, u.NumFields())}
		for i := range s.f {
			s.f[i] = zeroValue(u.Field(i).Type())
		}
		return s
	case *types.Array:
		if w, _, ok := intInfo(u.Elem()); ok {
			return BytesV{a: &ArrExpr{kind: 1, w: w}, n: u64(u.Len()), w: w}
		}
		a := ArrV{e: make([]Value, u.Len())}
		for i := range a.e {
			a.e[i] = zeroValue(u.Elem())
		}
		return a
	case *types.Interface:
		return IfaceV{}
	case *types.Map:
		return MapRef{}
	case *types.Chan:
		return ChanRef{}
	case *types.Signature:
		return FuncV{}
	case *types.Tuple:
		tv := make(TupleV, u.Len())
		for i := range tv {
			tv[i] = zeroValue(u.At(i).Type())
		}
		return tv
	}
	panic(fmt.Sprintf("zeroValue: unsupported type %s", t))
}

// ---- heap access along a path ----------------------------------------------

type execErr struct{ msg string }

func fail(format string, a ...interface{}) { panic(execErr{fmt.Sprintf(format, a...)}) }

func getPath(v Value, path []PathElem) Value {
	for _, pe := range path {
		if pe.idx != nil {
			switch c := v.(type) {
			case ArrV:
				if !pe.idx.isConst {
					fail("symbolic index into composite array")
				}
				if pe.idx.v >= uint64(len(c.e)) {
					fail("getPath: index %d out of composite array len %d", pe.idx.v, len(c.e))
				}
				v = c.e[pe.idx.v]
			case BytesV:
				v = c.a.sel(pe.idx)
			default:
				fail("getPath: index into %T", v)
			}
		} else {
			s, ok := v.(StructV)
			if !ok {
				fail("getPath: field of %T", v)
			}
			v = s.f[pe.field]
		}
	}
	return v
}

func setPath(v Value, path []PathElem, nv Value) Value {
	if len(path) == 0 {
		return nv
	}
	pe := path[0]
	if pe.idx != nil {
		switch c := v.(type) {
		case ArrV:
			if !pe.idx.isConst {
				fail("symbolic index store into composite array")
			}
			ne := append([]Value(nil), c.e...)
			ne[pe.idx.v] = setPath(c.e[pe.idx.v], path[1:], nv)
			return ArrV{e: ne}
		case BytesV:
			t, ok := nv.(*Term)
			if !ok || len(path) != 1 {
				fail("store non-scalar into scalar array")
			}
			return BytesV{a: c.a.store(pe.idx, t), n: c.n, w: c.w}
		default:
			fail("setPath: index into %T", v)
		}
	}
	s, ok := v.(StructV)
	if !ok {
		fail("setPath: field of %T", v)
	}
	nf := append([]Value(nil), s.f...)
	nf[pe.field] = setPath(s.f[pe.field], path[1:], nv)
	return StructV{f: nf}
}

func (st *State) load(p PtrV) Value {
	o := st.heap[p.obj]
	if o == nil {
		fail("load from unknown object %d", p.obj)
	}
	return getPath(o.val, p.path)
}

func (st *State) store(p PtrV, v Value) {
	o := st.heap[p.obj]
	if o == nil {
		fail("store to unknown object %d", p.obj)
	}
	st.heap[p.obj] = &Obj{typ: o.typ, val: setPath(o.val, p.path, v)}
}

func extendPath(p []PathElem, e PathElem) []PathElem {
	n := make([]PathElem, len(p)+1)
	copy(n, p)
	n[len(p)] = e
	return n
}
