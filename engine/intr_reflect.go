package main

import (
	"fmt"
	"go/types"
	"reflect"

	"golang.org/x/tools/go/ssa"
)

// A small model of package reflect, enough for reflection over one concrete struct type
// (vflow's Options in getEnv): TypeOf / NumField / Field(i).Tag.Get and
// ValueOf / Elem / Field(i) / Kind / SetString / SetInt / SetBool. The struct layout and
// the tags come from go/types, i.e. from the real declaration in /repo.

type ReflT struct{ typ types.Type }
type ReflV struct {
	ptr PtrV       // address of the value (settable)
	typ types.Type // its type
}

func (ex *Exec) rtypePtr() types.Type {
	p := ex.prog.ImportedPackage("reflect")
	if p == nil {
		fail("package reflect is not loaded")
	}
	m := p.Members["rtype"]
	if m == nil {
		fail("reflect.rtype not found")
	}
	return types.NewPointer(m.Type())
}

func kindOf(t types.Type) reflect.Kind {
	switch u := t.Underlying().(type) {
	case *types.Basic:
		switch u.Kind() {
		case types.Bool:
			return reflect.Bool
		case types.Int:
			return reflect.Int
		case types.Int8:
			return reflect.Int8
		case types.Int16:
			return reflect.Int16
		case types.Int32:
			return reflect.Int32
		case types.Int64:
			return reflect.Int64
		case types.Uint:
			return reflect.Uint
		case types.Uint8:
			return reflect.Uint8
		case types.Uint16:
			return reflect.Uint16
		case types.Uint32:
			return reflect.Uint32
		case types.Uint64:
			return reflect.Uint64
		case types.Float32:
			return reflect.Float32
		case types.Float64:
			return reflect.Float64
		case types.String:
			return reflect.String
		}
	case *types.Pointer:
		return reflect.Ptr
	case *types.Slice:
		return reflect.Slice
	case *types.Struct:
		return reflect.Struct
	case *types.Map:
		return reflect.Map
	case *types.Interface:
		return reflect.Interface
	case *types.Signature:
		return reflect.Func
	case *types.Chan:
		return reflect.Chan
	case *types.Array:
		return reflect.Array
	}
	return reflect.Invalid
}

func init() {
	reg := func(name string, f intrinsic) { intrinsics[name] = f }
	reg("reflect.TypeOf", func(ex *Exec, st *State, fv FuncV, args []Value, res ssa.Value, at ssa.Instruction) bool {
		v := args[0].(IfaceV)
		if v.t == nil {
			setRes(st, res, IfaceV{})
			return true
		}
		setRes(st, res, IfaceV{t: ex.rtypePtr(), v: ReflT{typ: v.t}})
		return true
	})
	reg("(*reflect.rtype).NumField", func(ex *Exec, st *State, fv FuncV, args []Value, res ssa.Value, at ssa.Instruction) bool {
		t := args[0].(ReflT)
		s, ok := t.typ.Underlying().(*types.Struct)
		if !ok {
			ex.check(st, tTrue, "panic", "reflect: NumField of non-struct type", at)
			ex.endPath(st, "panic")
			return false
		}
		setRes(st, res, u64(int64(s.NumFields())))
		return true
	})
	reg("(*reflect.rtype).Field", func(ex *Exec, st *State, fv FuncV, args []Value, res ssa.Value, at ssa.Instruction) bool {
		t := args[0].(ReflT)
		i := args[1].(*Term)
		s, ok := t.typ.Underlying().(*types.Struct)
		if !ok || !i.isConst || int(i.v) >= s.NumFields() {
			fail("reflect Type.Field with a symbolic or out-of-range index")
		}
		sf := fv.fn.Signature.Results().At(0).Type()
		out := zeroValue(sf).(StructV)
		sft := sf.Underlying().(*types.Struct)
		nf := append([]Value(nil), out.f...)
		for k := 0; k < sft.NumFields(); k++ {
			switch sft.Field(k).Name() {
			case "Name":
				nf[k] = litStr(s.Field(int(i.v)).Name())
			case "Tag":
				nf[k] = litStr(s.Tag(int(i.v)))
			case "Type":
				nf[k] = IfaceV{t: ex.rtypePtr(), v: ReflT{typ: s.Field(int(i.v)).Type()}}
			}
		}
		setRes(st, res, StructV{f: nf})
		return true
	})
	reg("(reflect.StructTag).Get", func(ex *Exec, st *State, fv FuncV, args []Value, res ssa.Value, at ssa.Instruction) bool {
		tag, ok1 := args[0].(StrV).concrete()
		key, ok2 := args[1].(StrV).concrete()
		if !ok1 || !ok2 {
			fail("StructTag.Get on non-literal strings")
		}
		setRes(st, res, litStr(reflect.StructTag(tag).Get(key)))
		return true
	})
	reg("reflect.ValueOf", func(ex *Exec, st *State, fv FuncV, args []Value, res ssa.Value, at ssa.Instruction) bool {
		v := args[0].(IfaceV)
		if v.t == nil {
			fail("reflect.ValueOf(nil)")
		}
		p, ok := v.v.(PtrV)
		if !ok {
			fail("reflect.ValueOf of a non-pointer (%s) is not modelled", v.t)
		}
		setRes(st, res, ReflV{ptr: p, typ: v.t}) // a pointer value: p is the pointer itself
		return true
	})
	reg("(reflect.Value).Elem", func(ex *Exec, st *State, fv FuncV, args []Value, res ssa.Value, at ssa.Instruction) bool {
		v := args[0].(ReflV)
		pt, ok := v.typ.Underlying().(*types.Pointer)
		if !ok {
			fail("reflect Value.Elem of a non-pointer")
		}
		if v.ptr.obj == 0 {
			fail("reflect Value.Elem of a nil pointer")
		}
		setRes(st, res, ReflV{ptr: v.ptr, typ: pt.Elem()}) // now designates the pointee, addressed by ptr
		return true
	})
	reg("(reflect.Value).Field", func(ex *Exec, st *State, fv FuncV, args []Value, res ssa.Value, at ssa.Instruction) bool {
		v := args[0].(ReflV)
		i := args[1].(*Term)
		s, ok := v.typ.Underlying().(*types.Struct)
		if !ok || !i.isConst || int(i.v) >= s.NumFields() {
			fail("reflect Value.Field with a symbolic or out-of-range index")
		}
		setRes(st, res, ReflV{ptr: PtrV{obj: v.ptr.obj, path: extendPath(v.ptr.path, PathElem{field: int(i.v)})}, typ: s.Field(int(i.v)).Type()})
		return true
	})
	reg("(reflect.Value).Kind", func(ex *Exec, st *State, fv FuncV, args []Value, res ssa.Value, at ssa.Instruction) bool {
		v := args[0].(ReflV)
		w, _, _ := intInfo(fv.fn.Signature.Results().At(0).Type())
		setRes(st, res, bvConst(uint64(kindOf(v.typ)), w))
		return true
	})
	reg("(reflect.Value).SetString", func(ex *Exec, st *State, fv FuncV, args []Value, res ssa.Value, at ssa.Instruction) bool {
		v := args[0].(ReflV)
		if kindOf(v.typ) != reflect.String {
			ex.check(st, tTrue, "panic", "reflect: SetString on a non-string", at)
			ex.endPath(st, "panic")
			return false
		}
		st.store(v.ptr, args[1])
		setRes(st, res, TupleV{})
		return true
	})
	reg("(reflect.Value).SetInt", func(ex *Exec, st *State, fv FuncV, args []Value, res ssa.Value, at ssa.Instruction) bool {
		v := args[0].(ReflV)
		w, _, ok := intInfo(v.typ)
		if !ok {
			ex.check(st, tTrue, "panic", "reflect: SetInt on a non-integer", at)
			ex.endPath(st, "panic")
			return false
		}
		st.store(v.ptr, bvConv(args[1].(*Term), true, w))
		setRes(st, res, TupleV{})
		return true
	})
	reg("(reflect.Value).SetBool", func(ex *Exec, st *State, fv FuncV, args []Value, res ssa.Value, at ssa.Instruction) bool {
		v := args[0].(ReflV)
		if kindOf(v.typ) != reflect.Bool {
			ex.check(st, tTrue, "panic", "reflect: SetBool on a non-bool", at)
			ex.endPath(st, "panic")
			return false
		}
		st.store(v.ptr, args[1])
		setRes(st, res, TupleV{})
		return true
	})
	_ = fmt.Sprint
}
