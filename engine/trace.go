package main

// Event is one shared-memory relevant action recorded in trace mode (C10).
type Event struct {
	Kind string // Lock Unlock RLock RUnlock MapRead MapWrite MapIter MapLen Read Write Atomic
	Obj  int    // heap object
	Path string // field path inside the object ("" for whole-object / map events)
	Thr  int
	Src  string
}

func (ex *Exec) emit(st *State, e Event) {
	if !st.traceOn {
		return
	}
	e.Thr = st.thread
	st.events = append(st.events, e)
}

func (ex *Exec) emitAccess(st *State, p PtrV, write bool) {
	if !st.traceOn || !ex.sharedObjs[p.obj] {
		return
	}
	k := "Read"
	if write {
		k = "Write"
	}
	ex.emit(st, Event{Kind: k, Obj: p.obj, Path: pathString(p.path)})
}

func (ex *Exec) emitObj(st *State, obj int, write bool) {
	if !st.traceOn || !ex.sharedObjs[obj] {
		return
	}
	k := "Read"
	if write {
		k = "Write"
	}
	ex.emit(st, Event{Kind: k, Obj: obj})
}

func (ex *Exec) emitMap(st *State, obj int, kind string) {
	if !st.traceOn {
		return
	}
	k := map[string]string{"read": "MapRead", "write": "MapWrite", "iter": "MapIter", "len": "MapLen"}[kind]
	ex.emit(st, Event{Kind: k, Obj: obj})
}

func (ex *Exec) emitLock(st *State, p PtrV, kind string) {
	if !st.traceOn {
		return
	}
	ex.emit(st, Event{Kind: kind, Obj: p.obj, Path: pathString(p.path)})
}

func (ex *Exec) emitAtomic(st *State, p PtrV) {
	if !st.traceOn {
		return
	}
	ex.emit(st, Event{Kind: "Atomic", Obj: p.obj, Path: pathString(p.path)})
}
