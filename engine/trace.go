package main

import (
	"fmt"
	"strings"
)

// Event is one shared-memory relevant action recorded in trace mode (C10).
type Event struct {
	Kind string // Lock Unlock RLock RUnlock MapRead MapWrite MapIter MapLen Read Write Atomic
	Obj  int    // heap object
	Path string // field path inside the object ("" for whole-object / map events)
	Thr  int
	Src  string
}

func (ex *Exec) emit(st *State, e Event) {
	if !st.traceOn {
		return
	}
	e.Thr = st.thread
	st.events = append(st.events, e)
}

// isShared: can another thread of the concurrent phase hold a reference to this object?
func (st *State) isShared(obj int) bool {
	return obj != 0 && (obj <= st.phaseBase || st.published[obj])
}

// publish marks every object allocated during the phase that is reachable from v as shared
// (v is being stored into a shared object, a shared map or a channel).
func (ex *Exec) publish(st *State, v Value) {
	if !st.traceOn {
		return
	}
	var walk func(v Value)
	mark := func(obj int) {
		if obj == 0 || obj <= st.phaseBase || st.published[obj] {
			return
		}
		if st.published == nil {
			st.published = map[int]bool{}
		}
		st.published[obj] = true
		if o := st.heap[obj]; o != nil {
			walk(o.val)
		}
	}
	walk = func(v Value) {
		switch x := v.(type) {
		case PtrV:
			mark(x.obj)
		case SliceV:
			mark(x.obj)
		case MapRef:
			mark(x.obj)
		case ChanRef:
			mark(x.obj)
		case RopeRef:
			mark(x.buf.obj)
		case StructV:
			for _, f := range x.f {
				walk(f)
			}
		case ArrV:
			for _, e := range x.e {
				walk(e)
			}
		case TupleV:
			for _, e := range x {
				walk(e)
			}
		case IfaceV:
			walk(x.v)
		case FuncV:
			for _, e := range x.free {
				walk(e)
			}
			for _, e := range x.bound {
				walk(e)
			}
		case MapV:
			for _, e := range x.entries {
				walk(e.k)
				walk(e.v)
			}
		case *MapV:
			if x != nil {
				for _, e := range x.entries {
					walk(e.k)
					walk(e.v)
				}
			}
		case ChanV:
			for _, e := range x.q {
				walk(e)
			}
		case *ChanV:
			if x != nil {
				for _, e := range x.q {
					walk(e)
				}
			}
		}
	}
	walk(v)
}

// evPath renders an access path for overlap tests: constant indices are kept, symbolic
// ones become a wildcard.
func evPath(p []PathElem) string {
	var sb strings.Builder
	for _, e := range p {
		if e.idx != nil {
			if e.idx.isConst {
				fmt.Fprintf(&sb, "/[%d]", e.idx.v)
			} else {
				sb.WriteString("/[*]")
			}
		} else {
			fmt.Fprintf(&sb, "/.%d", e.field)
		}
	}
	return sb.String()
}

// pathsOverlap: one access path is a prefix of the other (wildcard index matches any index).
func pathsOverlap(a, b string) bool {
	as, bs := strings.Split(a, "/"), strings.Split(b, "/")
	n := len(as)
	if len(bs) < n {
		n = len(bs)
	}
	for i := 0; i < n; i++ {
		if as[i] == bs[i] {
			continue
		}
		if (as[i] == "[*]" && strings.HasPrefix(bs[i], "[")) || (bs[i] == "[*]" && strings.HasPrefix(as[i], "[")) {
			continue
		}
		return false
	}
	return true
}

func (ex *Exec) srcOf(st *State) string {
	if len(st.frames) == 0 {
		return ""
	}
	fr := st.top()
	if fr.block != nil && fr.ip-1 >= 0 && fr.ip-1 < len(fr.block.Instrs) {
		if pos := fr.block.Instrs[fr.ip-1].Pos(); pos.IsValid() {
			p := ex.prog.Fset.Position(pos)
			return fmt.Sprintf("%s (%s:%d)", fr.fn.String(), p.Filename, p.Line)
		}
	}
	return fr.fn.String()
}

func (ex *Exec) emitAccess(st *State, p PtrV, write bool) {
	if !st.traceOn || !st.isShared(p.obj) {
		return
	}
	k := "Read"
	if write {
		k = "Write"
	}
	ex.emit(st, Event{Kind: k, Obj: p.obj, Path: evPath(p.path), Src: ex.srcOf(st)})
}

func (ex *Exec) emitObj(st *State, obj int, write bool) {
	if !st.traceOn || !st.isShared(obj) {
		return
	}
	k := "Read"
	if write {
		k = "Write"
	}
	ex.emit(st, Event{Kind: k, Obj: obj, Src: ex.srcOf(st)})
}

func (ex *Exec) emitMap(st *State, obj int, kind string) {
	if !st.traceOn {
		return
	}
	k := map[string]string{"read": "MapRead", "write": "MapWrite", "iter": "MapIter", "len": "MapLen"}[kind]
	ex.emit(st, Event{Kind: k, Obj: obj})
}

func (ex *Exec) emitLock(st *State, p PtrV, kind string) {
	if !st.traceOn {
		return
	}
	ex.emit(st, Event{Kind: kind, Obj: p.obj, Path: pathString(p.path)})
}

func (ex *Exec) emitAtomic(st *State, p PtrV) {
	if !st.traceOn {
		return
	}
	ex.emit(st, Event{Kind: "Atomic", Obj: p.obj, Path: pathString(p.path)})
}
