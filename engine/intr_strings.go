package main

import (
	"go/types"
	"strings"

	"golang.org/x/tools/go/ssa"
)

// Symbolic models of a few package strings predicates on ropes made of literal text and
// octet snapshots (string(b)). Lengths must be concrete: a symbolic length is case-split
// first (at most 64 values). Only ASCII needles are supported; anything else is
// "unsupported" (inconclusive), never guessed.

// ropeBytes returns the octets of s as terms, or the symbolic length that must be fixed first.
func (ex *Exec) ropeBytes(s StrV) (bs []*Term, forkOn *Term, ok bool) {
	for _, g := range s.segs {
		switch g.op {
		case "":
			for i := 0; i < len(g.lit); i++ {
				bs = append(bs, bvConst(uint64(g.lit[i]), 8))
			}
		case "bytes":
			sn := g.args[0].(SliceSnap)
			if !sn.len.isConst {
				return nil, sn.len, false
			}
			if sn.len.v > 4096 {
				return nil, nil, false
			}
			for i := uint64(0); i < sn.len.v; i++ {
				bs = append(bs, sn.a.sel(bvBin("bvadd", sn.off, u64(int64(i)))))
			}
		default:
			return nil, nil, false
		}
	}
	return bs, nil, true
}

func asciiOnly(s string) bool {
	for i := 0; i < len(s); i++ {
		if s[i] >= 0x80 {
			return false
		}
	}
	return true
}

func symStringsIntrinsic(name string, eval func(ex *Exec, bs []*Term, args []Value, fn *ssa.Function) Value) intrinsic {
	var self intrinsic
	self = func(ex *Exec, st *State, fv FuncV, args []Value, res ssa.Value, at ssa.Instruction) bool {
		s := args[0].(StrV)
		bs, forkOn, ok := ex.ropeBytes(s)
		if !ok && forkOn == nil {
			fail("%s on a string with opaque parts (%s)", name, describe(s))
		}
		if !ok {
			return ex.forkOnValues(st, forkOn, 64, "length of the string given to "+name, func(s2 *State, v uint64) bool {
				// lengths are substituted syntactically: rebuild the rope with this length fixed
				ns := StrV{}
				for _, g := range args[0].(StrV).segs {
					if g.op == "bytes" {
						sn := g.args[0].(SliceSnap)
						if sn.len.s == forkOn.s {
							g = Seg{op: "bytes", args: []Value{SliceSnap{a: sn.a, off: sn.off, len: u64(int64(v))}}}
						}
					}
					ns = ns.concat(StrV{segs: []Seg{g}})
				}
				nargs := append([]Value{ns}, args[1:]...)
				return self(ex, s2, fv, nargs, res, at)
			})
		}
		setRes(st, res, eval(ex, bs, args, fv.fn))
		return true
	}
	return self
}

func init() {
	needle := func(v Value, what string) string {
		s, ok := v.(StrV).concrete()
		if !ok || !asciiOnly(s) {
			fail("%s with a non-literal or non-ASCII argument", what)
		}
		return s
	}
	anyOf := func(b *Term, chars string) *Term {
		r := tFalse
		for i := 0; i < len(chars); i++ {
			r = tOr(r, tEq(b, bvConst(uint64(chars[i]), 8)))
		}
		return r
	}
	intrinsics["strings.ContainsAny"] = symStringsIntrinsic("strings.ContainsAny", func(ex *Exec, bs []*Term, args []Value, fn *ssa.Function) Value {
		chars := needle(args[1], "strings.ContainsAny")
		r := tFalse
		for _, b := range bs {
			r = tOr(r, anyOf(b, chars))
		}
		return r
	})
	intrinsics["strings.IndexAny"] = symStringsIntrinsic("strings.IndexAny", func(ex *Exec, bs []*Term, args []Value, fn *ssa.Function) Value {
		chars := needle(args[1], "strings.IndexAny")
		r := u64(-1)
		for i := len(bs) - 1; i >= 0; i-- {
			r = tIte(anyOf(bs[i], chars), u64(int64(i)), r)
		}
		return r
	})
	intrinsics["strings.IndexByte"] = symStringsIntrinsic("strings.IndexByte", func(ex *Exec, bs []*Term, args []Value, fn *ssa.Function) Value {
		c := args[1].(*Term)
		r := u64(-1)
		for i := len(bs) - 1; i >= 0; i-- {
			r = tIte(tEq(bs[i], c), u64(int64(i)), r)
		}
		return r
	})
	intrinsics["strings.ContainsRune"] = symStringsIntrinsic("strings.ContainsRune", func(ex *Exec, bs []*Term, args []Value, fn *ssa.Function) Value {
		c := args[1].(*Term)
		if !c.isConst || c.v >= 0x80 {
			fail("strings.ContainsRune with a symbolic or non-ASCII rune")
		}
		r := tFalse
		for _, b := range bs {
			r = tOr(r, tEq(b, bvConst(c.v, 8)))
		}
		return r
	})
	contains := func(ex *Exec, bs []*Term, sub string) *Term {
		if sub == "" {
			return tTrue
		}
		r := tFalse
		for i := 0; i+len(sub) <= len(bs); i++ {
			m := tTrue
			for j := 0; j < len(sub); j++ {
				m = tAnd(m, tEq(bs[i+j], bvConst(uint64(sub[j]), 8)))
			}
			r = tOr(r, m)
		}
		return r
	}
	intrinsics["strings.Contains"] = symStringsIntrinsic("strings.Contains", func(ex *Exec, bs []*Term, args []Value, fn *ssa.Function) Value {
		return contains(ex, bs, needle(args[1], "strings.Contains"))
	})
	intrinsics["strings.HasPrefix"] = symStringsIntrinsic("strings.HasPrefix", func(ex *Exec, bs []*Term, args []Value, fn *ssa.Function) Value {
		p := needle(args[1], "strings.HasPrefix")
		if len(p) > len(bs) {
			return tFalse
		}
		m := tTrue
		for j := 0; j < len(p); j++ {
			m = tAnd(m, tEq(bs[j], bvConst(uint64(p[j]), 8)))
		}
		return m
	})
	intrinsics["strings.HasSuffix"] = symStringsIntrinsic("strings.HasSuffix", func(ex *Exec, bs []*Term, args []Value, fn *ssa.Function) Value {
		p := needle(args[1], "strings.HasSuffix")
		if len(p) > len(bs) {
			return tFalse
		}
		m := tTrue
		o := len(bs) - len(p)
		for j := 0; j < len(p); j++ {
			m = tAnd(m, tEq(bs[o+j], bvConst(uint64(p[j]), 8)))
		}
		return m
	})
	_ = strings.Contains
}

// strings.Split and strconv.ParseUint on ropes made of literal text and decimal renderings
// (strconv.FormatUint of a symbolic number): the separator cannot occur inside a decimal
// rendering, and parsing a decimal rendering gives the number back (contract of strconv).
// This lets a harness hand a list option "x,y,z" with symbolic numbers to the real parser.
func init() {
	prevSplit := intrinsics["strings.Split"]
	intrinsics["strings.Split"] = func(ex *Exec, st *State, fv FuncV, args []Value, res ssa.Value, at ssa.Instruction) bool {
		s, sep := args[0].(StrV), args[1].(StrV)
		if _, ok := s.concrete(); ok {
			return prevSplit(ex, st, fv, args, res, at)
		}
		sepC, ok := sep.concrete()
		if !ok || sepC == "" || strings.ContainsAny(sepC, "0123456789-") {
			fail("strings.Split: separator %s on a symbolic string", describe(sep))
		}
		pieces := []StrV{{}}
		for _, g := range s.segs {
			switch g.op {
			case "":
				parts := strings.Split(g.lit, sepC)
				for i, p := range parts {
					if i > 0 {
						pieces = append(pieces, StrV{})
					}
					pieces[len(pieces)-1] = pieces[len(pieces)-1].concat(litStr(p))
				}
			case "dec":
				pieces[len(pieces)-1] = pieces[len(pieces)-1].concat(StrV{segs: []Seg{g}})
			default:
				fail("strings.Split on a string containing ‹%s›", g.op)
			}
		}
		es := make([]Value, len(pieces))
		for i, p := range pieces {
			es[i] = p
		}
		id := st.alloc(types.NewArray(types.Typ[types.String], int64(len(es))), ArrV{e: es})
		setRes(st, res, SliceV{obj: id, off: u64(0), len: u64(int64(len(es))), cap: u64(int64(len(es)))})
		return true
	}
	prevParse := intrinsics["strconv.ParseUint"]
	intrinsics["strconv.ParseUint"] = func(ex *Exec, st *State, fv FuncV, args []Value, res ssa.Value, at ssa.Instruction) bool {
		s := args[0].(StrV)
		if _, ok := s.concrete(); ok {
			return prevParse(ex, st, fv, args, res, at)
		}
		base, bits := args[1].(*Term), args[2].(*Term)
		if len(s.segs) != 1 || s.segs[0].op != "dec" || !base.isConst || !bits.isConst || (base.v != 10 && base.v != 0) {
			fail("strconv.ParseUint of %s", describe(s))
		}
		g := s.segs[0]
		t, sg, b := g.args[0].(*Term), g.args[1].(*Term), g.args[2].(*Term)
		if sg.v == 1 || b.v != 10 {
			fail("strconv.ParseUint of a signed or non-decimal rendering")
		}
		nb := int(bits.v)
		if nb == 0 {
			nb = 64
		}
		v64 := bvZext(t, 64)
		if t.w <= nb {
			setRes(st, res, TupleV{v64, IfaceV{}})
			return true
		}
		fits := bvCmp("bvule", v64, bvConst(mask(nb), 64))
		return ex.forkAlts(st, []alt{
			{cond: fits, apply: func(st *State) { setRes(st, res, TupleV{v64, IfaceV{}}) }},
			{cond: tNot(fits), apply: func(st *State) {
				setRes(st, res, TupleV{bvConst(mask(nb), 64), ex.newErr(at, litStr("value out of range"))})
			}},
		})
	}
}
